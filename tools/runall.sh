#!/bin/bash
# runall.sh [quick|thorough] [ids...] : run the registered checks one after the other (evidence is rewritten)
tier=${1:-quick}; shift
ids=${@:-C01 C02 C03 C04 C05 C06 C07 C08 C09 C10 C11 C12 C13 C14 C15 C16 C17 C18 C19 C20}
cd "$(dirname "$(readlink -f "$0")")/.." && mkdir -p .build
for id in $ids; do
  s=$(date +%s)
  ./check $id --tier $tier > .build/runall-$id.log 2>&1
  rc=$?
  echo "$id rc=$rc $(( $(date +%s) - s ))s $(tail -1 .build/runall-$id.log)"
done

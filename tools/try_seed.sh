#!/bin/bash
# try_seed.sh <seed-dir-or-patch> <Cnn> [check args]: run a check against a scratch worktree of /repo HEAD
# with the seeded change applied. Never touches /repo's working tree or the committed evidence.
src=$1; prop=$2; shift 2
if [ -d "$src" ]; then patch=$src/patch.diff; [ -f $src/patch.ported.diff ] && patch=$src/patch.ported.diff; else patch=$src; fi
tag=$(basename $(dirname $(readlink -f $patch)))-$prop-$$
wt=/tmp/try-wt-$tag
out=/tmp/try-out-$tag
git -C /repo worktree add --detach $wt HEAD >/dev/null 2>&1 || { echo "worktree failed"; exit 9; }
trap 'git -C /repo worktree remove --force '$wt' >/dev/null 2>&1; git -C /repo worktree prune; rm -rf '$out'/.build' EXIT
( cd $wt && ( git apply "$patch" 2>/dev/null || git apply -3 "$patch" 2>/dev/null || patch -p1 -s < "$patch" ) ) || { echo "patch does not apply"; exit 9; }
mkdir -p $out
cd /verif && VERIF_REPO=$wt VERIF_OUT=$out timeout ${TRY_TIMEOUT:-2400} ./check $prop "$@" 2>&1 | grep -v "^  test=" | tail -${TRY_TAIL:-4}
echo "check-exit=${PIPESTATUS[0]} out=$out"

#!/bin/bash
# try_seed.sh <patch.diff> <Cnn> [extra check args]: apply a seeded change to /repo, run the check, undo it.
patch=$1; prop=$2; shift 2
cd /repo || exit 9
git diff --quiet || { echo "/repo is dirty; refusing"; exit 9; }
git apply "$patch" 2>/dev/null || git apply -3 "$patch" 2>/dev/null || patch -p1 -s < "$patch" || { echo "patch does not apply"; git checkout -- . ; exit 9; }
git reset -q
trap 'git -C /repo checkout -- . ; git -C /repo clean -fdq' EXIT
cd /verif && timeout ${TRY_TIMEOUT:-1500} ./check $prop "$@"
echo "check-exit=$?"

#!/usr/bin/env python3
"""Print the seeded-change table (markdown) from seeded/*/meta.json; with --write, put it into DESIGN.md."""
import json, glob, os, sys, re
V = os.path.dirname(os.path.dirname(os.path.abspath(__file__)))
rows = []
for f in sorted(glob.glob(os.path.join(V, "seeded", "*", "meta.json"))):
    m = json.load(open(f))
    cr = m.get("check_result")
    if cr is None:
        res = "not run yet"
    elif cr["violations_reported"] > 0:
        res = "caught (%d violation lines)" % cr["violations_reported"]
        if cr.get("decided_by") and cr["decided_by"] != m["breaks_property"]:
            res += " by %s's check (%s's own check is silent by design: honest runs only)" % (cr["decided_by"], m["breaks_property"])
    else:
        res = "MISSED (%s)" % cr["detail"][:40]
    rows.append("| %s | %s | %s | %s |" % (m["id"], m["what"], m["needs_to_manifest"], res))
table = "| seed | change | needs | quick check of its property |\n|---|---|---|---|\n" + "\n".join(rows)
if "--write" in sys.argv:
    p = os.path.join(V, "DESIGN.md")
    s = open(p).read()
    if "SEED_TABLE" in s:
        s = s.replace("SEED_TABLE", "<!-- seed table begin -->\n" + table + "\n<!-- seed table end -->")
    else:
        s = re.sub(r"<!-- seed table begin -->.*?<!-- seed table end -->", "<!-- seed table begin -->\n" + table + "\n<!-- seed table end -->", s, flags=re.S)
    open(p, "w").write(s)
else:
    print(table)

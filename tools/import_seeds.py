import json, os, shutil, glob, re
needs = {
"C01-1": ("Signature built from un-padded R/S bytes: Signature != R||S", "R.x or the normalised S has a leading zero byte (about 1 signature in 128); forced by the harness by steering the signers' k_i and the digest"),
"C01-2": ("digest range guard compares against the field prime p instead of the order q", "a digest in [q, p): q, q+1, p-1"),
"C02-1": ("echoed message loses its leading zero bytes although fullBytesLen was given", "a message starting with zero bytes and fullBytesLen passed; only SignatureData.M is affected"),
"C02-2": ("R half of the EdDSA signature mis-encoded when R (as an integer) needs fewer than 32 bytes", "about 1 session in 256; forced by steering the signers' nonces so that the encoding of R has a zero top byte"),
"C03-1": ("duplicate-id check keyed on the unreduced party key", "two party keys that differ as integers but are congruent modulo the group order"),
"C03-2": ("big.Int aliasing in the public-share evaluation: powers k, k^2, k^4 instead of k, k^2, k^3", "threshold t >= 3 (n >= 4), ECDSA keygen only; invisible at t = 1, 2"),
"C04-1": ("round-4 'skip my own ACK' moved into Update for both committees: old member i treats new member i as acknowledged", "the new member whose index equals an old participant's index fails / goes silent before ACKing while the others ACK (ported to the repaired tree)"),
"C04-2": ("old member's working copy of Xi reduced mod q in the constructor, so the final erase hits a private copy", "Xi >= q, i.e. only from the second resharing of a chain (resharing stores an unreduced sum)"),
"C05-1": ("Alice_end goroutine reads the enclosing loop variable Pj (go 1.16 loop semantics): wrong culprit", "a non-last signer alters its no-check MtA Bob proof"),
"C05-2": ("EdDSA resharing: V_0 == y assertion moved from round 4 to round 5 (after the ACK)", "an old member reshares from a wrong secret: all new members ACK, old shares are erased, then every new member aborts"),
"C06-1": ("resharing ValidateMessage sender-index bound inverted for DGRound3Message1", "new committee larger than the old one and a DGRound3Message1 whose sender index lies in [oldCount, newCount-1]"),
"C06-2": ("RangeProofAlice.Verify: first gcd guard tests W instead of Z", "z = 0 (or another non-unit mod NTilde) with an otherwise valid Paillier-side equation (ported to the repaired tree)"),
"C07-1": ("ECDSA signing LocalParty.Start() re-creates the message store", "a round-1 message delivered before the party's own Start()"),
"C07-2": ("StoreMessage replay guard returns false for an occupied slot, which suppresses BaseUpdate's recursion", "a party enters its last message round already holding all peers' messages of that round"),
"C08-1": ("old-committee parties pre-mark the new member with their own index as ACKed in round 4", "WaitingFor() on an old party in round 4, or a lost/late ACK from the same-index new party"),
"C08-2": ("signing round 1 Update checks CanAccept(msg1) twice: the channel kind of SignRound1Message2 is never checked", "a broadcast-type round-1 message delivered with the broadcast flag flipped (ported to the repaired tree)"),
"C09-1": ("BaseParty.WaitingFor no longer takes the party mutex", "WaitingFor polled from another goroutine during Start/Update (race detector)"),
"C09-2": ("BaseUpdate stores the message before taking the lock", "overlapping Update calls (race detector) / a second message for a filled slot while a round's Start runs"),
"C10-1": ("ProveRangeAlice draws the mask alpha below q instead of q^3", "Alice's plaintext at the low extreme: m = 0 always rejected, m = 1, 2 often"),
"C10-2": ("ProofBobWC.Verify reduces s1 modulo the process-global curve's order", "the ec argument differs from the default curve (ed25519)"),
"C11-1": ("ProofFac.Verify range-checks Z1 twice and never Z2", "a modulus with a small factor, the small factor passed as the FIRST witness"),
"C11-2": ("Bob's with-check challenge no longer includes the point U (shared helper takes ProofBob)", "an adaptive prover: prove for a wrong point, recover e from the response, choose U := s1*G - e*B'"),
"C12-1": ("DLN challenge hash drops the last commitment alpha[127] (slice sized Iterations+2)", "shifting alpha[127]*h1^d together with t[127]+d; index 127 only"),
"C12-2": ("Paillier key proof challenge uses ecdsaPub.X() twice: Y is not bound", "the same proof presented for -P (only Y changed)"),
"C13-1": ("ProveRangeAlice draws alpha below q (same slip as C10-1)", "a = 0 (always) or a = 1 (often): BobMid rejects an honest Alice"),
"C13-2": ("with-check challenge hashes X twice and never U", "a cheating Bob who picks U after the challenge so that the point equation holds for a wrong point"),
"C14-1": ("Decrypt's non-unit guard replaced by c mod N == 0", "a ciphertext that is a multiple of only P or only Q"),
"C14-2": ("safe-prime generator sets the wrong byte in the b==1 branch (second-highest bit not forced)", "safe-prime sizes = 2 mod 8, i.e. Paillier modulus lengths 36, 52, 68, ...: about 39% of keys are one bit short"),
"C15-1": ("CheckIndexes duplicate check keyed on the raw id", "ids that coincide modulo the group order (a and a+q)"),
"C15-2": ("ReConstruct trims the share list to Threshold+1 after building the x-coordinate list", "any subset larger than t+1"),
"C16-1": ("SHA512_256i writes the '$'||len terminator only BETWEEN elements", ">= 9 crafted bytes moved across the boundary of the last two elements (the literal framing of the neighbour)"),
"C16-2": ("ParseSecrets checks MaxPartSize after slicing", "a forged length prefix p with position + p > MaxInt64"),
"C17-1": ("UnmarshalJSON without a curve name returns before the on-curve check", "a JSON document with absent/empty Curve field and off-curve coordinates"),
"C17-2": ("ECPoint.ScalarMult reduces the scalar modulo the field prime p instead of the order", "scalars >= p: 2q+1 on secp256k1, 2^256+3, unreduced products a*b"),
"C18-1": ("serializeCompressed no longer left-pads X to 32 bytes", "a parent or intermediate key with X < 2^248 (1 key in 256); forced by steering"),
"C18-2": ("prepare() adds the derivation offset to the stored Xi in place", "re-using the same in-memory key data after one HD session"),
"C19-1": ("b==1 branch guard len(bytes) > 2 instead of > 1", "bit length 10 only: about half of the primes have the second-highest bit clear"),
"C19-2": ("errCh capacity = numPrimes instead of concurrency", "failing entropy source with concurrency >= numPrimes+2 (slow failing reads): the call hangs and leaks goroutines"),
"C20-1": ("same in-place offset slip as C18-2", "a session created with a derivation offset reaches Start(); the damage shows on a later deep-compare / second use"),
"C20-2": ("EdDSA nonce derived as a hash of (ssid, w_i, m)", "two completed sessions on the same message and the same signer subset: identical R"),
"C01-3": ("ECDSA signing round1.Update reads SignRound1Message1s twice: the round-1 commitment broadcast is no longer awaited", "one P_j->P_i copy of SignRound1Message2 overtaken by four rounds of later traffic: P_i panics in round 5 (same change as C07-3, written independently)"),
"C01-4": ("signing getSSID builds the session id with spare capacity; append(ssid, idx...) in rounds 2-6 then writes in place", "a (key, signer set) whose session-id hash has a leading zero byte (about 1 in 256): honest Bob proofs are rejected in round 3"),
"C03-3": ("ECPoint.Equals compares p.Y() with itself: equality is x-only", "secp256k1 and a dealer sending exactly the negated share (needs a faulty dealer: decided by C05's negation cells, C03 quantifies over honest runs)"),
"C03-4": ("vss.Share.Verify accepts any number of commitments > threshold", "a dealer that is self-consistent with a degree-(t+1) polynomial in commitment, reveal and shares (same change as C05-4; needs a faulty dealer: decided by C05)"),
"C04-3": ("EdDSA resharing resetOK 'tidied' into copy() from a slice sized by oldOK: newOK[len(oldOK):] is never reset", "new committee larger than the participating old subset and a high-indexed new member silent before its ACK: old shares erased without its acknowledgement"),
"C04-4": ("ECDSA resharing round 2 no longer stores generated pre-parameters into the save data", "a new member that passes no pre-parameters (library generates them) with the factorisation proof on: old shares erased, that member aborts in round 5"),
"C05-3": ("ProofBobWC.Verify range checks merged with &&: an out-of-range s1 alone is accepted", "a self-consistent MtA response (library prover) with a multiplier far above q^3"),
"C05-4": ("vss.Share.Verify loops over all supplied commitments and rejects only len <= threshold", "an ECDSA keygen dealer that commits to, reveals and shares a degree-(t+1) polynomial consistently: honest key data no longer lies on a degree-t polynomial"),
"C06-3": ("signing round 3 error channel sized len(Parties) while 2(n-1) verifier goroutines may report", ">= 3 signers and more than n failing Bob-proof checks (both proofs of both peers): the Update call hangs holding the party mutex"),
"C06-4": ("SignRound8Message.ValidateBasic no longer requires 5 decommitment parts (round 9 guard is '!ok && len != 4')", "a peer that commits in round 7 to a too-short list and opens it correctly in round 8: index out of range in round9.Start"),
"C07-3": ("same one-token slip as C01-3 (SignRound1Message1s read twice)", "one copy of SignRound1Message2 held back past round 4"),
"C07-4": ("ECDSA resharing StoreMessage declines a DGRound4Message1 whose sender's DGRound2Message1 has not arrived", "N_j's DGRound2Message1 to N_i delayed past N_j's own DGRound4Message1: N_i never gets its share, no error"),
"C08-3": ("ECDSA keygen round2.Update abandons bookkeeping at the first wrong-channel stored message", "a flag-flipped round-2 message from a lower-indexed peer, then other deliveries: WaitingFor reports an honest later-indexed peer"),
"C08-4": ("ECDSA resharing resetOK 'clear via copy' sized len(newOK): oldOK[len(newOK):] is never cleared", "a shrinking resharing (5 -> 3): in round 3 new members omit the high-indexed old members from WaitingFor and leave the round early"),
"C12-3": ("SHA512_256i_TAGGED copies the tag into a 32-byte array instead of hashing it", "sessions that agree in their first 32 bytes, i.e. ssid||i vs ssid||j: a proof made for prover i verifies for prover j"),
"C12-4": ("schnorr ZKProof.Verify compares only the x-coordinates", "response T replaced by q - T on secp256k1 (commitment unchanged)"),
"C19-3": ("safe-prime worker uses rand.Read instead of io.ReadFull", "a healthy entropy source that returns short reads: no pairs with 1-byte reads, primes with a constant zero tail with larger chunks"),
"C19-4": ("GenerateNTildei tests safePrimes[0] twice", "a composite (or 1) in the second slot only"),
"C20-3": ("ECDSA nonce share k drawn from PartialKeyRand() instead of Rand()", "parameters carrying a seeded / repeating SetPartialKeyRand (the key-generation source): R repeats across sessions"),
"C20-4": ("EdDSA BuildLocalSaveDataSubset returns sourceData itself for the full committee; PrepareForSigning reduces ids mod q in place", "EdDSA, signer set = all saved parties in saved order, a party id >= q: stored Ks rewritten"),
"C02-3": ("EdDSA PrepareForSigning multiplies into the caller's share (wi aliases xi): stored Xi becomes x_i*lambda_i", "the second and later signing sessions that reuse the same in-memory key objects: every signer aborts in finalization"),
"C02-4": ("EdDSA finalize sums the partial signatures modulo the process-global curve's order", "the global default curve left at secp256k1 while the parameters carry Edwards: S = S_true + L, accepted by the library's own check, rejected by standard verifiers"),
"C09-3": ("ECDSA resharing round 4 builds ContextJ with append(round.temp.ssid, ...) inside the per-peer modProof goroutines", "a 31-byte session id (1 in 256) received through the wire format (spare capacity), modProof on, >= 3 new members: data race, honest member blamed"),
"C09-4": ("ECDSA keygen round 2 DLN callbacks capture the loop variables (go.mod says go 1.16)", "a peer that is not the last party sends a rejected / unparsable DLN proof: wrong culprit; race detector flags the unparsable case"),
"C10-3": ("SHA512_256i_TAGGED caches the last tag digest keyed by the caller's slice itself", "two proofs made back-to-back from one scratch buffer rewritten in place with a same-length session: the second proof uses the first session's digest"),
"C10-4": ("ProofFac.Verify treats a nil session as a missing argument", "the empty session spelled nil (prover accepts it): every honest no-small-factor proof rejected"),
"C11-3": ("Paillier key proof's small-prime screen batched into 64-bit products; the last open batch (991*997) is dropped", "a modulus divisible by 991 or 997 and no smaller prime, with gcd(N,phi)=1 and genuine roots from the library prover"),
"C11-4": ("ProofBobWC.Verify computes q^7 in place: q3 and q7 are the same object (q^7)", "a multiplier between q^3 and about q^6 with a consistent ciphertext and point"),
"C13-3": ("paillier HomoMult plaintext guard rewritten as m.Sign() <= 0", "b = 0: BobMid / BobMidWC refuse an honest run"),
"C13-4": ("ECPoint.Equals compares Y with itself (P equals -P)", "with-check variant, cheating Bob known by B = b*G who multiplies by q-b and sends the mask point negated"),
"C14-3": ("HomoMult scalar upper bound compared against N^2 instead of N", "a scalar in [N, N^2)"),
"C14-4": ("HomoAdd multiplies into its first operand (result aliases c1)", "the first operand is used again after the call"),
"C15-3": ("ReConstruct Lagrange denominator operands swapped: result multiplied by (-1)^(k-1)", "an even number of shares: q - secret is returned"),
"C15-4": ("Share.Verify zero guard tests sigma twice, never the id", "an id that is 0 mod q: panic on secp256k1, acceptance of (q, secret) on edwards25519"),
"C16-3": ("SHA512_256 refactored through big.Int: leading zero bytes of an element are stripped", "an element or tag that starts with 0x00"),
"C16-4": ("commitment builder AddPart silently skips empty parts", "a layout containing a part of length 0: round trip loses it, different layouts share one commitment"),
"C17-3": ("isOnCurve range test moved into a helper written v <= p", "a coordinate exactly equal to the field prime whose reduction is on the curve: four non-canonical torsion points on edwards25519"),
"C17-4": ("GobEncode writes x's length as y's length prefix", "coordinates of different byte lengths (one below 2^248): about 1 point in 128"),
"C18-3": ("ExtendedKey.String() appends into k.Version (spare capacity of the parse buffer)", "a key parsed from its string form whose descendants are serialised before the parsed object is used again: its chain code / fingerprint are overwritten"),
"C18-4": ("depth guard written pk.Depth+1 > maxDepth on a uint8", "a parent at depth exactly 255: the child comes back with depth 0"),
"C01-5": ("low-S normalisation rewritten with S >= halfN: the canonical value (q-1)/2 is mirrored to (q-1)/2+1", "the raw sum of the partial signatures equals exactly (q-1)/2: reachable only by steering the digest"),
"C01-6": ("ECDSA PrepareForSigning multiplies into the caller's share (wi aliases xi)", "a second session started from the same in-memory key data"),
"C03-5": ("ECDSA keygen round 3 reduces the share sum modulo the process-global curve's order", "the deprecated global curve set to edwards25519 in the process: Xi*G != BigXj[i], nothing fails"),
"C03-6": ("EdDSA keygen round 3 collects verified VSS commitments in a map keyed by the free-form PartyID.Id string", "two parties carry the same (or a blank) id string, n >= 3: one contribution counted twice, another dropped"),
"C04-5": ("ECDSA resharing round 5 asks NoProofMod() where it must ask NoProofFac()", "the mixed option combination: modulus proof on, factorisation proof off: old shares erased, every new member aborts"),
"C04-6": ("EdDSA resharing round 4 takes the modulus for the BigXj powers from the process-global curve", "global curve not Edwards, t' >= 2, 256-bit party keys: every new member saves wrong public shares"),
"C05-5": ("EdDSA resharing round 1 compares announced group keys against the first message evaluated", "the deviating old member announces another VALID point and its message is evaluated first: an honest member is blamed"),
"C05-6": ("ECDSA resharing ssid reference = most frequent value, ties go to old index 0 (strict majority lost)", "exactly two old members, deviator index 0 alters / removes ssid: honest index 1 named"),
"C06-5": ("BaseParty.WrapError wraps with the never-set FirstRound field when the party has no current round", "a message that must be rejected handed to a party that is not started yet or has finished: nil dereference"),
"C06-6": ("EdDSA copyBytes padding loop replaced by copy(s[32-len:], ...)", "a peer's s_j longer than 32 bytes: slice bounds panic in finalization"),
"C07-5": ("BaseParty.setRound clears the early-message flag before BaseStart consumes it", "a resharing new member whose whole inbox arrived before its Start(): deadlock without error"),
"C07-6": ("ECDSA keygen round 2 NextRound releases the round-1 message slots", "a duplicate of a round-1 broadcast arriving two or more rounds late (or after the finish): index out of range"),
"C08-5": ("ECDSA resharing messages: IsBroadcast = len(to) != 1", "a committee message with exactly one recipient, i.e. a new committee of exactly 2 members"),
"C08-6": ("EdDSA keygen StoreMessage keeps the first copy per sender even if it came on the wrong channel", "a flag-flipped copy followed by the proper message from the same sender"),
"C12-5": ("ProofMod.Verify splits the iterations over GOMAXPROCS workers with integer division", "GOMAXPROCS not dividing 80 (3, 6, 7, 12, ...): the tail iterations are never checked"),
"C12-6": ("Bob's with-check challenge input list built with append into a shared backing array: z, z', t, v are no longer hashed", "ProofBobWC with X != nil and the shifts (ZPrm*h2^d, S2+d) or (V*rho^N, S*rho)"),
"C19-5": ("safe-prime sieve exemption tests pBitLen instead of qBitLen", "bit length 7 only (q=53 is itself a sieve prime): no pair is ever returned"),
"C19-6": ("GetRandomPositiveInt acceptance test flipped to lessThan.Cmp(try) != -1", "the raw draw equals the bound (probability about 1/(b+1) for tiny bounds that are not 2^k-1)"),
"C20-5": ("GetCurveName compares curve objects by identity", "ed25519 points that did not come out of json.Unmarshal (tss.Edwards() builds a new object per call): fresh key data cannot be serialised"),
"C20-6": ("ECDSA signing LocalParty.Update wipes secrets (incl. the aliased stored Xi) when an update returns an error with culprits", "an ECDSA session without derivation offset aborted by a tampered message: the stored share is 0 afterwards"),
"C02-5": ("EdDSA ecPointToEncodedBytes takes the sign of X from the wrong byte of the little-endian encoding (bit 248 instead of bit 0)", "a group key whose X has bit 248 different from bit 0 (half of all keys; the fixture key is in the other half): every signing session aborts"),
"C02-6": ("EdDSA BuildLocalSaveDataSubset keys its map by kj.Text(16) while the lookup uses hex.EncodeToString", "a signer whose party key's first byte is below 0x10 (small ids, 1 random key in 16): NewLocalParty panics"),
"C09-5": ("ProofFac.Verify reduces the caller's s and t in place", "ECDSA keygen with the factorisation proof on and >= 3 parties: the per-peer verifier goroutines race on the shared NTilde/h1/h2 (race detector)"),
"C09-6": ("ECDSA signing WaitingFor filters into Ps[:0] (the peer context's own party list)", "WaitingFor polled mid-round while a lower-indexed party is already ok: the shared committee list is rewritten"),
"C10-5": ("DLN Verify reads the challenge bits from a left-aligned 32-byte copy of the digest", "a challenge digest with a leading zero byte (1 honest proof in 256)"),
"C10-6": ("Paillier key Proof.Verify computes y_i^N in place in the caller's proof elements", "the same proof object verified a second time, or encoded after a verification"),
"C11-5": ("HomoMult multiplier guard rewritten as m.Cmp(N) > 0", "the multiplier exactly N"),
"C11-6": ("mod proof challenge helper with a value receiver: all 80 challenges are the same", "a cheating prover that retries W until the single challenge is answerable (N = pqr, or q = 5 mod 8)"),
"C13-5": ("AliceEnd / AliceEndWC copy cA, cB through SetBytes(Bytes()): the sign is lost", "cB altered to -cB"),
"C13-6": ("BobMid / BobMidWC reduce the received cA modulo N^2 first", "cA altered to cA + k*N^2"),
"C14-5": ("Encrypt draws its randomness with GetRandomPositiveInt instead of the coprime sampler", "the drawn x is 0 or shares a factor with N: tiny keys, or a source whose first block encodes P, Q, kP or 0"),
"C14-6": ("HomoAdd's second guard tests c1's sign instead of c2's", "a negative second operand"),
"C15-5": ("vss.Create checks the ids against the process-global curve's order", "edwards25519 with the global curve left at secp256k1: ids q, 2q, a and a+q are dealt"),
"C15-6": ("ECPoint.Equals compares Y with itself (third independent occurrence of this slip)", "secp256k1, the share negated modulo q"),
"C16-5": ("SHA512_256i_TAGGED caches the tag digest under the tag cut / zero-padded to 32 bytes", "tags longer than 32 bytes that share their first 32 bytes (ssid||i vs ssid||j), or differing by trailing zero bytes"),
"C16-6": ("HashCommitDecommit remembers a successful opening in an unexported flag", "the second use of one object (or a struct copy) after its exported C / D were reassigned"),
"C17-5": ("EightInvEight returns the receiver unchanged when x == 0", "the order-2 point (0, p-1) only"),
"C17-6": ("ECPoint.Add takes a doubling fast path on equal x alone", "operands that share x and differ in y: P + (-P)"),
"C18-5": ("DeriveChildKey builds the parent point without the curve check", "invalid parents whose sum with IL*G is on the curve: the identity written (0,0), (x, y-p), (x, -y)"),
"C18-6": ("DeriveChildKeyFromHierarchy shadows err inside its loop", "a refused level (hardened index, depth 255) anywhere in a multi-level path: the path is silently truncated"),
"C01-7": ("signing round 7 rewritten with crypto.ECPoint helpers: -m*G is the point at infinity for m = 0, which they reject", "digest 0: every signer panics in round 7"),
"C01-8": ("PrepareForSigning bigWs loop: Lagrange difference operands swapped: bigWs[j] multiplied by (-1)^(|S|-1)", "an even number of signers: every signer aborts in round 3"),
"C03-7": ("ShareID taken from the party's own VSS share, which Create now labels with the reduced id", "ECDSA keygen at a party whose key is >= the group order: ShareID differs from Ks[i]"),
"C03-8": ("keygen WaitingFor filters the peer context's party list in place", "the application polls WaitingFor() while some but not all peers are complete: BigXj evaluated at the wrong keys"),
"C04-7": ("EdDSA resharing round 4 no longer sums the sub-shares; round 5 re-reads the stored DGRound3Message1", "an old member sends a second, different DGRound3Message1 after the new member verified and ACKed the first"),
"C04-8": ("ECDSA resharing retiring member sends on the end channel before erasing its share", "the retiring member's end channel blocks (never read / unbuffered): the share is never erased"),
"C05-7": ("ECPoint.Equals compares Y with itself (fourth independent occurrence)", "a participant sends the negated Feldman share q - s"),
"C05-8": ("ECDSA resharing round 4: the UnFlattenECPoints error site names newPs[j] instead of oldPs[j]", "an old member commits in round 1 to a list containing an off-curve point and opens exactly that list in round 3"),
"C06-7": ("BaseUpdate returns without unlocking when a message is ignored without error", "a well-formed message of a registered type that belongs to another protocol: the next call on the party blocks forever"),
"C06-8": ("UnmarshalDLNProof merges the two per-part length checks into one total", "both length prefixes changed consistently (k and 256-k): nil dereference in Verify, inside library goroutines"),
"C07-7": ("EdDSA resharing CanProceed scans only min(len) entries of oldOK", "old committee larger than the new one: a new member enters round 4 without the high-indexed old members' messages"),
"C07-8": ("ECDSA resharing ValidateMessage checks DGRound3Message2's sender index against the new committee's size", "old committee larger than the new one"),
"C08-7": ("EdDSA signing round 1 recomputes the ok flags on every Update", "a flag-flipped duplicate of an already accepted round-1 message: the sender re-appears in WaitingFor"),
"C08-8": ("EdDSA resharing ValidateMessage bounds DGRound3Message2 by the new committee's size", "old committee larger than the new one"),
"C12-7": ("DLN Verify memoises accepted challenges (the responses are not part of the key)", "the untampered transcript was accepted earlier in the same process: any replaced response is then accepted"),
"C12-8": ("RejectionSample computes q mod hash instead of hash mod q", "edwards25519 (q about 2^252): the challenge is the constant q for 15/16 of transcripts"),
"C19-7": ("all safe-prime workers share one candidate buffer", "concurrency >= 2 and a nanosecond interleaving: second-highest bit clear in 1-4 of 10,000 primes; the race detector flags it at once"),
"C19-8": ("the bit-length re-check after stepping the candidate is dropped", "small sizes (7-20 bits): a pair one bit too long"),
"C20-7": ("MarshalJSON omits the curve name for points on the process-global default curve", "key data written under one global default curve and read under another"),
"C20-8": ("ECDSA BuildLocalSaveDataSubset walks saved parties and signers side by side with bytes.Compare", "party keys of different byte lengths (byte order differs from numeric order)"),
}
conf = {}
for f in glob.glob('/tmp/seed-confirm/*.result'):
    t = open(f).read().strip().split(' ', 1)
    conf[t[0]] = t[1]
det = {}
if os.path.exists('/verif/tools/trial-logs/SUMMARY.txt'):
    for l in open('/verif/tools/trial-logs/SUMMARY.txt'):
        p = l.split()
        if len(p) >= 4:
            det[(p[0], p[1])] = (int(p[2]) if p[2].isdigit() else 0, ' '.join(p[3:]))
extra = json.load(open('/verif/tools/seed_extra_results.json')) if os.path.exists('/verif/tools/seed_extra_results.json') else {}
os.makedirs('/verif/seeded', exist_ok=True)
for sid, (what, need) in sorted(needs.items()):
    src = '/tmp/seed-out/' + sid
    if not os.path.isdir(src):
        continue
    dst = '/verif/seeded/' + sid
    os.makedirs(dst, exist_ok=True)
    ported = os.path.exists(src + '/patch.ported.diff')
    shutil.copyfile(src + ('/patch.ported.diff' if ported else '/patch.diff'), dst + '/patch.diff')
    if ported:
        shutil.copyfile(src + '/patch.diff', dst + '/patch.original-at-pinned-commit.diff')
    for d in glob.glob(src + '/**/zz_seed_demo*_test.go', recursive=True):
        rel = os.path.relpath(d, src).replace('/', '__')
        shutil.copyfile(d, dst + '/' + rel + '.txt')  # .txt: not compiled as part of anything under /verif
    if os.path.exists(src + '/notes.md'):
        shutil.copyfile(src + '/notes.md', dst + '/notes.md')
    prop = sid.split('-')[0]
    decided_by = {"C03-3": "C05", "C03-4": "C05", "C04-7": "C05"}.get(sid, prop)  # changes that need a faulty party are C05's subject
    d = extra.get(sid) or det.get((sid, decided_by))
    meta = {
        "id": sid, "breaks_property": prop, "what": what, "needs_to_manifest": need,
        "written_by": "independent sub-agent given only the property text and a scratch worktree",
        "confirmed_in_scratch_worktree": conf.get(sid, "see DESIGN.md"),
        "confirmation_procedure": "tools/confirm_seed.sh: worktree of /repo HEAD; demo passes on pristine; patch applies and builds; demo fails with the patch; unedited suite passes with the patch",
        "ported_to_repaired_tree": ported,
        "check_result": None if d is None else {"violations_reported": d[0], "detail": d[1], "command": "tools/try_seed.sh seeded/%s %s (quick tier, on a scratch worktree with the change applied)" % (sid, decided_by), "decided_by": decided_by},
    }
    json.dump(meta, open(dst + '/meta.json', 'w'), indent=1)
print(len(os.listdir('/verif/seeded')), 'seeds imported')

#!/bin/bash
# confirm_seed.sh <seed-id> : confirm a seeded change in a scratch worktree of /repo (HEAD):
#  applies, builds, unedited suite passes, demo fails with the change and passes without it.
# Writes /tmp/seed-confirm/<id>.log and .result (one line).
id=$1
src=/tmp/seed-out/$id
wt=/tmp/confirm-wt-$id
export GOFLAGS=-mod=mod GOPROXY=off GOSUMDB=off GOTOOLCHAIN=local
mkdir -p /tmp/seed-confirm
log=/tmp/seed-confirm/$id.log
: > $log
res() { echo "$id $*" | tee /tmp/seed-confirm/$id.result; }
git -C /repo worktree add --detach $wt HEAD >>$log 2>&1 || { res "worktree-failed"; exit 1; }
cleanup() { git -C /repo worktree remove --force $wt >>$log 2>&1; git -C /repo worktree prune; }
trap cleanup EXIT
cd $wt
# place demo files: notes say which package dir; infer from 'package' + path hints
demos=$(cd $src && find . -name 'zz_seed_demo_test.go')
place_demo() {
  for d in $demos; do
    dir=$(dirname $d)
    base=$(basename $dir)
    target=""
    if [ "$dir" != "." ]; then
      # e.g. ecdsa_resharing/ -> ecdsa/resharing
      target=$(echo $base | sed 's#_#/#')
    else
      target=$(grep -ho 'go test[^`]*\./[a-z/]*' $src/notes.md | grep -o '\./[a-z/]*' | head -1 | sed 's#^\./##; s#/$##')
    fi
    [ -d "$wt/$target" ] || { echo "cannot place demo $d (target '$target')" >>$log; return 1; }
    cp $src/$d $wt/$target/zz_seed_demo_test.go
    echo "$target"
  done
}
pkgs=$(place_demo) || { res "demo-placement-failed"; exit 1; }
runargs=""
for p in $pkgs; do runargs="$runargs ./$p/"; done
# 1. pristine: demo passes
go test -vet=off -count=1 -timeout 20m -run 'Seed' $runargs >>$log 2>&1 && pristine=pass || pristine=FAIL
# 2. apply patch
P=$src/patch.diff; [ -f $src/patch.ported.diff ] && P=$src/patch.ported.diff; git apply $P >>$log 2>&1 || { res "patch-does-not-apply pristine-demo=$pristine"; exit 1; }
go build ./... >>$log 2>&1 || { res "mutant-does-not-build"; exit 1; }
go test -vet=off -count=1 -timeout 20m -run 'Seed' $runargs >>$log 2>&1 && mutdemo=PASS || mutdemo=fail
# 3. unedited suite with the mutant (demo removed)
for p in $pkgs; do rm -f $wt/$p/zz_seed_demo_test.go; done
go test -vet=off -count=1 -timeout 25m -p 3 ./... >>$log 2>&1 && suite=pass || suite=FAIL
res "pristine-demo=$pristine mutant-demo=$mutdemo suite-with-mutant=$suite"

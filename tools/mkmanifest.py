#!/usr/bin/env python3
"""Regenerate /verif/MANIFEST.json from units.json (claimed checks) and properties.jsonl."""
import json, os
V = os.path.dirname(os.path.dirname(os.path.abspath(__file__)))
props = [json.loads(l) for l in open(os.path.join(V, "properties.jsonl"))]
units = json.load(open(os.path.join(V, "units.json")))
meta = json.load(open(os.path.join(V, "tools", "manifest_meta.json")))
m = {
    "version": 1,
    "setup_cmd": "./check --setup",
    "hooks": {
        "guard": "verif",
        "enable": "go test -c -tags verif (the harness builds /repo's working tree as a replaced module; no hook commits exist because every observation point is exported API)",
        "baseline_off_cmd": "cd /repo && GOFLAGS=-mod=mod GOPROXY=off GOSUMDB=off go test -vet=off -count=1 -timeout 25m ./...",
        "source_commits": [],
        "add_only": True,
    },
    "engines": [{"name": "harness", "path": "/verif/harness", "serves_properties": [],
                 "kind_free_text": "Go test binary (pgregory.net/rapid v1.3.0 generators, systematic small-scope enumerations, native go fuzz targets) driven by /verif/check (python3): builds from /repo's working tree, shards units over cores, merges per-unit evidence, replays saved regression inputs"}],
    "checks": [],
    "notes": "Design, findings and mutant results: DESIGN.md. Known findings: known_findings.json. Seeded changes: seeded/.",
    "not_applicable": [],
}
for p in props:
    pid = p["id"]
    if pid in units and pid in meta:
        mm = meta[pid]
        m["checks"].append({
            "property_id": pid,
            "quick_cmd": "./check %s --tier quick" % pid,
            "thorough_cmd": "./check %s --tier thorough" % pid,
            "evidence_file": "/verif/evidence/%s.json" % pid,
            "replay_cmd_template": "./check %s --replay {path}" % pid,
            "engine": "harness",
            "level_claimed": {"category": units[pid].get("level", "exploration"), "text": mm["level_text"],
                              "design_ref": "DESIGN.md section 2, " + pid},
            "level_note": mm["level_note"],
            "technique": mm["technique"],
        })
        m["engines"][0]["serves_properties"].append(pid)
    else:
        m["not_applicable"].append({"property_id": pid, "reason": meta.get("_pending", {}).get(pid, "check under construction in this round (design in DESIGN.md section 2); not yet registered")})
json.dump(m, open(os.path.join(V, "MANIFEST.json"), "w"), indent=1)
print("claimed:", " ".join(c["property_id"] for c in m["checks"]))

// Package ev collects what a check actually executed (evidence), drives
// rapid-generated cases with journaling / replay files, and implements the
// known-findings protocol. It is shared by every property check.
package ev

import (
	"encoding/json"
	"fmt"
	"os"
	"path/filepath"
	"runtime/debug"
	"sort"
	"strconv"
	"strings"
	"sync"
	"testing"
	"time"

	"pgregory.net/rapid"
)

// Outcome of one executed case.
type Outcome struct {
	Label      string      // shape key (property specific)
	Nontrivial bool        // by the property's stated rule
	Err        error       // non-nil: the oracle says the property is violated
	Sig        string      // what failed, as a stable signature (matched against known findings)
	Sample     interface{} // optional: what to show as a sample instead of the raw case
	Skip       bool        // case excluded (e.g. matches an open known finding by construction)
}

type Violation struct {
	Test   string `json:"test"`
	Sig    string `json:"sig,omitempty"`
	Msg    string `json:"msg"`
	Replay string `json:"replay"`
}

type Recorder struct {
	Property string
	Unit     string

	mu          sync.Mutex
	evaluations int
	labels      map[string]int
	nontrivial  map[string]bool
	samples     []interface{}
	sampleKeys  map[string]bool
	excluded    int
	exhaustive  *bool
	violations  []Violation
	known       map[string]int
	notes       map[string]interface{}
	start       time.Time
	flushed     bool
}

func Tier() string {
	if t := os.Getenv("VERIF_TIER"); t == "thorough" {
		return "thorough"
	}
	return "quick"
}

func Seed() int64 {
	s, err := strconv.ParseInt(os.Getenv("VERIF_SEED"), 10, 64)
	if err != nil || s == 0 {
		return 20260922
	}
	return s
}

// Shard returns (index, count) for process-level sharding of enumerations.
func Shard() (int, int) {
	i, _ := strconv.Atoi(os.Getenv("VERIF_SHARD"))
	n, _ := strconv.Atoi(os.Getenv("VERIF_SHARDS"))
	if n <= 0 {
		return 0, 1
	}
	return i % n, n
}

// Scale returns quick or thorough value.
func Scale(quick, thorough int) int {
	if Tier() == "thorough" {
		return thorough
	}
	return quick
}

// EnvInt reads an integer knob the driver may pass (VERIF_N etc.).
func EnvInt(name string, def int) int {
	if v, err := strconv.Atoi(os.Getenv(name)); err == nil {
		return v
	}
	return def
}

func New(t testing.TB, property string) *Recorder {
	r := &Recorder{
		Property:   property,
		Unit:       t.Name(),
		labels:     map[string]int{},
		nontrivial: map[string]bool{},
		sampleKeys: map[string]bool{},
		known:      map[string]int{},
		notes:      map[string]interface{}{},
		start:      time.Now(),
	}
	t.Cleanup(r.Flush)
	return r
}

func (r *Recorder) Note(k string, v interface{}) {
	r.mu.Lock()
	defer r.mu.Unlock()
	r.notes[k] = v
}

func (r *Recorder) AddNote(k string, n int) {
	r.mu.Lock()
	defer r.mu.Unlock()
	if old, ok := r.notes[k].(int); ok {
		r.notes[k] = old + n
	} else {
		r.notes[k] = n
	}
}

func (r *Recorder) SetExhaustive(b bool) {
	r.mu.Lock()
	defer r.mu.Unlock()
	r.exhaustive = &b
}

func (r *Recorder) Excluded(n int) {
	r.mu.Lock()
	defer r.mu.Unlock()
	r.excluded += n
}

// Count records one executed case.
func (r *Recorder) Count(label string, nontrivial bool, sample interface{}) {
	r.mu.Lock()
	defer r.mu.Unlock()
	r.evaluations++
	r.labels[label]++
	if nontrivial {
		first := !r.nontrivial[label]
		r.nontrivial[label] = true
		if first && len(r.samples) < 16 && sample != nil {
			r.samples = append(r.samples, map[string]interface{}{"label": label, "case": sample})
		}
	} else if len(r.samples) < 2 && sample != nil && !r.sampleKeys[label] {
		r.sampleKeys[label] = true
		r.samples = append(r.samples, map[string]interface{}{"label": label, "trivial": true, "case": sample})
	}
}

// CountN records n executed cases of one class at once (bulk enumerations).
func (r *Recorder) CountN(label string, n int, distinctNontrivial []string, sample interface{}) {
	r.mu.Lock()
	defer r.mu.Unlock()
	r.evaluations += n
	r.labels[label] += n
	for _, k := range distinctNontrivial {
		r.nontrivial[k] = true
	}
	if sample != nil && len(r.samples) < 16 {
		r.samples = append(r.samples, map[string]interface{}{"label": label, "case": sample})
	}
}

func replayDir(property string) string {
	d := os.Getenv("VERIF_REPLAY_DIR")
	if d == "" {
		d = filepath.Join(os.TempDir(), "verif-replays", property)
	}
	_ = os.MkdirAll(d, 0o755)
	return d
}

type ReplayFile struct {
	Property string          `json:"property"`
	Test     string          `json:"test"`
	Sig      string          `json:"sig,omitempty"`
	Msg      string          `json:"msg,omitempty"`
	Case     json.RawMessage `json:"case"`
}

func sanitize(s string) string {
	s = strings.Map(func(r rune) rune {
		if r >= 'a' && r <= 'z' || r >= 'A' && r <= 'Z' || r >= '0' && r <= '9' || r == '-' || r == '_' {
			return r
		}
		return '_'
	}, s)
	if len(s) > 60 {
		s = s[:60]
	}
	return s
}

// Violation records a violation and writes its replay file; it returns the path.
func (r *Recorder) Violation(test string, sig, msg string, c interface{}) string {
	raw, err := json.Marshal(c)
	if err != nil {
		raw, _ = json.Marshal(fmt.Sprintf("%+v", c))
	}
	rf := ReplayFile{Property: r.Property, Test: test, Sig: sig, Msg: msg, Case: raw}
	bz, _ := json.MarshalIndent(rf, "", " ")
	path := filepath.Join(replayDir(r.Property), sanitize(test+"-"+sig)+".json")
	_ = os.WriteFile(path, bz, 0o644)
	r.mu.Lock()
	defer r.mu.Unlock()
	// keep one entry per (test,sig): shrinking rewrites the same file
	for i := range r.violations {
		if r.violations[i].Replay == path {
			r.violations[i].Msg = msg
			return path
		}
	}
	r.violations = append(r.violations, Violation{Test: test, Sig: sig, Msg: msg, Replay: path})
	return path
}

func (r *Recorder) KnownHit(id string) {
	r.mu.Lock()
	defer r.mu.Unlock()
	r.known[id]++
}

func partPath(r *Recorder) string {
	p := os.Getenv("VERIF_PART")
	if p == "" {
		p = filepath.Join(os.TempDir(), "verif-parts", r.Property, sanitize(r.Unit)+".json")
	}
	_ = os.MkdirAll(filepath.Dir(p), 0o755)
	return p
}

// the case in flight (for ReportHang)
var inflight struct {
	mu   sync.Mutex
	r    *Recorder
	test string
	c    interface{}
}

// ReportHang is called from a watchdog goroutine when a call into the library has not returned within its
// budget. The goroutine running the case is stuck inside the library, so the violation is recorded here and
// the process ends (the remaining cases of this unit are not run).
func ReportHang(desc string) {
	inflight.mu.Lock()
	r, test, c := inflight.r, inflight.test, inflight.c
	inflight.mu.Unlock()
	if r == nil {
		fmt.Println("VERIF-HANG without a case in flight: " + desc)
		os.Exit(1)
	}
	out := Outcome{Label: "hang in library code", Nontrivial: true, Err: fmt.Errorf("a call into the library did not return: %s", desc), Sig: "hang:" + strings.SplitN(desc, " did not return", 2)[0]}
	msg := r.handle(test, c, out)
	r.Flush()
	if msg == "" { // a listed known finding
		os.Exit(0)
	}
	fmt.Println(msg)
	fmt.Println("--- FAIL: " + test + " (hang)")
	os.Exit(1)
}

// Journal notes the case about to be executed, so that a process death can be attributed.
func (r *Recorder) Journal(test string, c interface{}) {
	inflight.mu.Lock()
	inflight.r, inflight.test, inflight.c = r, test, c
	inflight.mu.Unlock()
	raw, err := json.Marshal(c)
	if err != nil {
		return
	}
	rf := ReplayFile{Property: r.Property, Test: test, Case: raw}
	bz, _ := json.Marshal(rf)
	_ = os.WriteFile(partPath(r)+".journal", bz, 0o644)
}

func (r *Recorder) Flush() {
	r.mu.Lock()
	defer r.mu.Unlock()
	nt := make([]string, 0, len(r.nontrivial))
	for k := range r.nontrivial {
		nt = append(nt, k)
	}
	sort.Strings(nt)
	out := map[string]interface{}{
		"property":    r.Property,
		"unit":        r.Unit,
		"tier":        Tier(),
		"seed":        Seed(),
		"evaluations": r.evaluations,
		"labels":      r.labels,
		"nontrivial":  nt,
		"samples":     r.samples,
		"excluded":    r.excluded,
		"violations":  r.violations,
		"known":       r.known,
		"notes":       r.notes,
		"wall_s":      time.Since(r.start).Seconds(),
	}
	if r.exhaustive != nil {
		out["exhaustive"] = *r.exhaustive
	}
	bz, _ := json.MarshalIndent(out, "", " ")
	_ = os.WriteFile(partPath(r), bz, 0o644)
	_ = os.Remove(partPath(r) + ".journal")
}

// ---------------------------------------------------------------------------------------------
// Known findings

type Finding struct {
	ID       string `json:"id"`
	Property string `json:"property"`
	Status   string `json:"status"` // open | fixed
	Match    string `json:"match"`  // signature (exact, or prefix when it ends with '*')
	What     string `json:"what"`
	Commit   string `json:"commit,omitempty"`
}

var (
	knownOnce sync.Once
	knownList []Finding
)

func loadKnown() {
	p := os.Getenv("VERIF_KNOWN")
	if p == "" {
		p = "/verif/known_findings.json"
	}
	bz, err := os.ReadFile(p)
	if err != nil {
		return
	}
	var f struct {
		Findings []Finding `json:"findings"`
	}
	if json.Unmarshal(bz, &f) == nil {
		knownList = f.Findings
	}
}

// KnownOpen returns the open finding matching (property, sig), if any.
func KnownOpen(property, sig string) (Finding, bool) {
	knownOnce.Do(loadKnown)
	if sig == "" {
		return Finding{}, false
	}
	for _, f := range knownList {
		if f.Status != "open" || f.Property != property {
			continue
		}
		if f.Match == sig || (strings.HasSuffix(f.Match, "*") && strings.HasPrefix(sig, strings.TrimSuffix(f.Match, "*"))) {
			return f, true
		}
	}
	return Finding{}, false
}

// ---------------------------------------------------------------------------------------------
// Driving generated cases

func replayTimes() int {
	if n, err := strconv.Atoi(os.Getenv("VERIF_REPLAY_TIMES")); err == nil && n > 0 {
		return n
	}
	return 5
}

// handle processes one outcome; returns an error message if the test must fail.
func (r *Recorder) handle(test string, c interface{}, out Outcome) string {
	if out.Skip {
		r.Excluded(1)
		return ""
	}
	sample := out.Sample
	if sample == nil {
		sample = c
	}
	r.Count(out.Label, out.Nontrivial, sample)
	if out.Err == nil {
		return ""
	}
	if f, ok := KnownOpen(r.Property, out.Sig); ok {
		r.KnownHit(f.ID)
		return ""
	}
	path := r.Violation(test, out.Sig, out.Err.Error(), c)
	return fmt.Sprintf("VERIF-VIOLATION property=%s test=%s sig=%q replay=%s :: %v", r.Property, test, out.Sig, path, out.Err)
}

// Replaying reports whether this process is a replay run, and for which test.
func Replaying() (ReplayFile, bool) {
	p := os.Getenv("VERIF_REPLAY")
	if p == "" {
		return ReplayFile{}, false
	}
	bz, err := os.ReadFile(p)
	if err != nil {
		return ReplayFile{}, true
	}
	var rf ReplayFile
	_ = json.Unmarshal(bz, &rf)
	return rf, true
}

// safeRun executes run(c); a panic raised inside library code (a tss-lib frame is reached before any
// harness frame when walking down from the panic) becomes a violating outcome; a panic raised by the
// harness itself is re-raised (infrastructure error, never a violation).
// Raised is a violation raised from deep inside a harness helper (panic(ev.Raised{...})): safeRun turns it
// into a violating outcome of the running case.
type Raised struct{ Sig, Msg string }

func safeRun[C any](run func(C) Outcome, c C) (out Outcome) {
	defer func() {
		if p := recover(); p != nil {
			if r, ok := p.(Raised); ok {
				out = Outcome{Label: "violation raised by a harness helper: " + r.Sig, Nontrivial: true, Err: fmt.Errorf("%s", r.Msg), Sig: r.Sig}
				return
			}
			frame, lib := classifyPanic(string(debug.Stack()))
			if !lib {
				panic(p)
			}
			out = Outcome{Label: "panic in library code", Nontrivial: true,
				Err: fmt.Errorf("panic in library code: %v (at %s)", p, frame), Sig: "panic:" + frame}
		}
	}()
	return run(c)
}

func classifyPanic(stack string) (frame string, lib bool) {
	lines := strings.Split(stack, "\n")
	started := false
	for _, l := range lines {
		if strings.HasPrefix(l, "panic(") {
			started = true
			continue
		}
		if !started || strings.HasPrefix(l, "\t") || l == "" {
			continue
		}
		if strings.Contains(l, "verif/harness") {
			return l, false
		}
		if strings.Contains(l, "bnb-chain/tss-lib") {
			if i := strings.LastIndex(l, "("); i > 0 {
				l = l[:i]
			}
			return l, true
		}
	}
	return "", false
}

// Drive runs `run` over rapid-generated cases (or over the replayed case).
func Drive[C any](t *testing.T, r *Recorder, gen func(*rapid.T) C, run func(C) Outcome) {
	test := t.Name()
	if rf, ok := Replaying(); ok {
		if rf.Test != test {
			t.Skip("replay file is for another test")
		}
		var c C
		if err := json.Unmarshal(rf.Case, &c); err != nil {
			t.Fatalf("cannot decode replay case: %v", err)
		}
		for i := 0; i < replayTimes(); i++ {
			inflight.mu.Lock()
			inflight.r, inflight.test, inflight.c = r, test, c
			inflight.mu.Unlock()
			out := safeRun(run, c)
			if msg := r.handle(test, c, out); msg != "" {
				fmt.Println(msg)
				t.Fatal(msg)
			}
		}
		return
	}
	rapid.Check(t, func(rt *rapid.T) {
		c := gen(rt)
		r.Journal(test, c)
		out := safeRun(run, c)
		if msg := r.handle(test, c, out); msg != "" {
			rt.Fatalf("%s", msg)
		}
	})
}

// Each runs `run` over an explicit list of cases (enumerations, regression inputs).
// It does not stop at the first failure: every violating case is recorded.
func Each[C any](t *testing.T, r *Recorder, cases []C, run func(C) Outcome) {
	test := t.Name()
	if rf, ok := Replaying(); ok {
		if rf.Test != test {
			t.Skip("replay file is for another test")
		}
		var c C
		if err := json.Unmarshal(rf.Case, &c); err != nil {
			t.Fatalf("cannot decode replay case: %v", err)
		}
		for i := 0; i < replayTimes(); i++ {
			inflight.mu.Lock()
			inflight.r, inflight.test, inflight.c = r, test, c
			inflight.mu.Unlock()
			out := safeRun(run, c)
			if msg := r.handle(test, c, out); msg != "" {
				fmt.Println(msg)
				t.Fatal(msg)
			}
		}
		return
	}
	failed := 0
	for _, c := range cases {
		r.Journal(test, c)
		out := safeRun(run, c)
		if msg := r.handle(test, c, out); msg != "" {
			fmt.Println(msg)
			failed++
			if failed >= EnvInt("VERIF_MAXFAIL", 10) {
				break
			}
		}
	}
	if failed > 0 {
		t.Fatalf("%d violating case(s)", failed)
	}
}

func Errf(format string, a ...interface{}) error { return fmt.Errorf(format, a...) }

package props

import (
	"fmt"
	"math/big"
	"sync"

	eckeygen "github.com/bnb-chain/tss-lib/v2/ecdsa/keygen"
	edkeygen "github.com/bnb-chain/tss-lib/v2/eddsa/keygen"
	"pgregory.net/rapid"

	"verif/harness/ref"
	"verif/harness/sim"
)

var keyPatterns = []string{"small", "random256", "gt-q", "near-q", "mixed", "huge"}

// genPartyKeys draws an admissible party-key set (non-zero and pairwise distinct modulo q) in a drawn order.
func genPartyKeys(t *rapid.T, n int, q *big.Int) ([]H, string) {
	pat := rapid.SampledFrom(keyPatterns).Draw(t, "keypattern")
	return makePartyKeys(pat, n, q, func(label string, bits int) *big.Int { return drawBigBits(t, label, bits) },
		func(k int) int { return rapid.IntRange(0, k).Draw(t, "perm") }), pat
}

func makePartyKeys(pat string, n int, q *big.Int, rnd func(string, int) *big.Int, pick func(int) int) []H {
	near := []*big.Int{add(q, -1), add(q, 1), add(new(big.Int).Lsh(q, 1), 3), add(q, -2), add(q, 2), add(new(big.Int).Lsh(q, 1), -1), add(q, 7), add(q, -5)}
	used := map[string]bool{}
	keys := make([]*big.Int, 0, n)
	for i := 0; len(keys) < n; i++ {
		var v *big.Int
		p := pat
		if p == "mixed" {
			p = []string{"small", "random256", "gt-q", "near-q", "huge"}[(i+pick(4))%5]
		}
		switch p {
		case "small":
			v = big.NewInt(int64(len(keys) + 1 + i - len(keys)))
		case "random256":
			v = rnd("key", 256)
		case "gt-q":
			v = new(big.Int).Add(q, rnd("key", 255))
		case "near-q":
			v = near[i%len(near)]
		case "huge":
			v = rnd("key", 512)
		}
		m := new(big.Int).Mod(v, q)
		if m.Sign() == 0 || used[m.String()] {
			if p == "small" || p == "near-q" {
				// deterministic patterns: move on
				v = add(v, int64(100+i))
				m = new(big.Int).Mod(v, q)
				if m.Sign() == 0 || used[m.String()] {
					continue
				}
			} else {
				continue
			}
		}
		used[m.String()] = true
		keys = append(keys, v)
	}
	// drawn order
	for i := len(keys) - 1; i > 0; i-- {
		j := pick(i)
		keys[i], keys[j] = keys[j], keys[i]
	}
	return hxs(keys)
}

// ------------------------------------------------------------------------------------------------
// key pool: real DKG outputs, produced by running the keygen protocols through the simulator once
// per process and cached.

type ecPoolKey struct {
	N, T    int
	Pattern string
	Keys    []*big.Int // sorted party keys
	Data    []eckeygen.LocalPartySaveData
}

type edPoolKey struct {
	N, T    int
	Pattern string
	Keys    []*big.Int
	Data    []edkeygen.LocalPartySaveData
}

var (
	poolMu sync.Mutex
	ecPool = map[string]*ecPoolKey{}
	edPool = map[string]*edPoolKey{}
)

func detPartyKeys(pat string, n int, q *big.Int, seed string) []*big.Int {
	d := newDRBG("partykeys/" + seed)
	rnd := func(_ string, bits int) *big.Int {
		b := make([]byte, (bits+7)/8)
		d.Read(b)
		v := new(big.Int).SetBytes(b)
		return v.Rsh(v, uint(len(b)*8-bits))
	}
	pick := func(k int) int {
		var b [2]byte
		d.Read(b[:])
		return (int(b[0])<<8 | int(b[1])) % (k + 1)
	}
	return bigs(makePartyKeys(pat, n, q, rnd, pick))
}

// poolEC returns a real ECDSA DKG output for (n,t,pattern); ("fixture",5,2) returns the vendored keys.
func poolEC(n, t int, pattern string) (*ecPoolKey, error) {
	key := fmt.Sprintf("%d/%d/%s", n, t, pattern)
	poolMu.Lock()
	defer poolMu.Unlock()
	if k, ok := ecPool[key]; ok {
		return k, nil
	}
	if pattern == "fixture" {
		fx := loadECDSAFixtures()
		pk := &ecPoolKey{N: 5, T: 2, Pattern: pattern, Data: fx}
		for _, k := range fx[0].Ks {
			pk.Keys = append(pk.Keys, k)
		}
		// order Data by party index
		ordered := make([]eckeygen.LocalPartySaveData, 5)
		for _, d := range fx {
			idx, _ := d.OriginalIndex()
			ordered[idx] = d
		}
		pk.Data = ordered
		ecPool[key] = pk
		return pk, nil
	}
	keys := detPartyKeys(pattern, n, ref.Secp.N, key)
	pre := preParams()
	cfg := sim.KeygenCfg{Keys: keys, T: t, Pre: pre[:n]}
	net, ids := sim.NewKeygen(cfg)
	net.Run(sim.FIFO{}, 100000)
	if !net.AllFinished() || net.AnyErr() {
		return nil, fmt.Errorf("pool keygen ecdsa %s did not complete: %s", key, describeNet(net))
	}
	pk := &ecPoolKey{N: n, T: t, Pattern: pattern, Keys: ids.Keys()}
	for _, nd := range net.Nodes {
		pk.Data = append(pk.Data, *nd.ECKeys[0])
	}
	ecPool[key] = pk
	return pk, nil
}

func poolED(n, t int, pattern string) (*edPoolKey, error) {
	key := fmt.Sprintf("%d/%d/%s", n, t, pattern)
	poolMu.Lock()
	defer poolMu.Unlock()
	if k, ok := edPool[key]; ok {
		return k, nil
	}
	if pattern == "fixture" {
		fx := loadEDDSAFixtures()
		pk := &edPoolKey{N: 5, T: 2, Pattern: pattern}
		pk.Keys = append(pk.Keys, fx[0].Ks...)
		ordered := make([]edkeygen.LocalPartySaveData, 5)
		for _, d := range fx {
			idx, _ := d.OriginalIndex()
			ordered[idx] = d
		}
		pk.Data = ordered
		edPool[key] = pk
		return pk, nil
	}
	keys := detPartyKeys(pattern, n, ref.Ed.L, key)
	net, ids := sim.NewKeygen(sim.KeygenCfg{EdDSA: true, Keys: keys, T: t})
	net.Run(sim.FIFO{}, 100000)
	if !net.AllFinished() || net.AnyErr() {
		return nil, fmt.Errorf("pool keygen eddsa %s did not complete: %s", key, describeNet(net))
	}
	pk := &edPoolKey{N: n, T: t, Pattern: pattern, Keys: ids.Keys()}
	for _, nd := range net.Nodes {
		pk.Data = append(pk.Data, *nd.EDKeys[0])
	}
	edPool[key] = pk
	return pk, nil
}

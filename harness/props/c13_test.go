package props

// C13 — MtA turns a product of secrets into additive shares of that product.

import (
	"crypto/rand"
	"fmt"
	"math/big"
	"testing"

	"github.com/bnb-chain/tss-lib/v2/crypto"
	"github.com/bnb-chain/tss-lib/v2/crypto/mta"
	"pgregory.net/rapid"

	"verif/harness/ev"
	"verif/harness/ref"
)

type c13Case struct {
	Curve  string
	ASet   int
	BSet   int
	A, B   H
	AC, BC string
	WC     bool
	Sess   B
	SessC  string
	Alter  string // "", "cA+1", "cA-rand", "cA-add", "cA-mult2", "cA-neg", "cA+N2", "cB+1", "cB-rand", "cB-add", "cB-mult2", "cB-neg", "cB+N2", "wrong-B", "swap-c"
	Delta  H
}

func genC13(t *rapid.T) c13Case {
	c := c13Case{Curve: rapid.SampledFrom([]string{"secp256k1", "secp256k1", "ed25519"}).Draw(t, "curve"),
		ASet: rapid.IntRange(0, 4).Draw(t, "aset"), BSet: rapid.IntRange(0, 4).Draw(t, "bset"), WC: rapid.Bool().Draw(t, "wc")}
	cv := getCurve(c.Curve)
	a, ac := boundaryBelow(t, "a", cv.Q)
	b, bc := boundaryBelow(t, "b", cv.Q)
	if c.WC && b.Sign() == 0 && c.Curve == "secp256k1" {
		b, bc = big.NewInt(1), "1"
	}
	c.A, c.AC, c.B, c.BC = hx(a), ac, hx(b), bc
	c.Sess, c.SessC = genSession(t)
	c.Alter = rapid.SampledFrom([]string{"", "", "", "", "cA+1", "cA-rand", "cA-add", "cA-mult2", "cA-neg", "cA+N2", "cB+1", "cB-rand", "cB-add", "cB-mult2", "cB-neg", "cB+N2", "wrong-B", "wrong-B-adaptive", "wrong-B-mirrored", "swap-c"}).Draw(t, "alter")
	c.Delta = hx(add(drawBigBits(t, "delta", 200), 1))
	return c
}

func runC13(c c13Case) (out ev.Outcome) {
	var watch bigWatch
	defer func() { watch.finish(&out, "MtA") }()
	cv := getCurve(c.Curve)
	q := cv.Q
	ap, bp := preParams()[c.ASet], preParams()[c.BSet]
	pkA := &ap.PaillierSK.PublicKey
	pair := "diag"
	if c.ASet != c.BSet {
		pair = "offdiag"
	}
	out = ev.Outcome{Label: fmt.Sprintf("mta %s pair=%s a=%s b=%s wc=%v alter=%s", c.Curve, pair, c.AC, c.BC, c.WC, c.Alter)}
	out.Nontrivial = c.AC != "rand" || c.BC != "rand" || pair == "offdiag" || c.Alter != ""
	fail := func(sig, f string, a ...interface{}) ev.Outcome {
		out.Err, out.Sig = fmt.Errorf(f, a...), sig
		return out
	}
	a, b := c.A.Big(), c.B.Big()
	sess := c.Sess.Bytes()
	watch.add("a", a)
	watch.add("b", b)
	cA, pfA, err := mta.AliceInit(cv.EC, pkA, a, bp.NTildei, bp.H1i, bp.H2i, rand.Reader)
	if err != nil {
		return fail("alice-init", "AliceInit refused a in [0,q): %v", err)
	}
	watch.add("cA", cA)
	watch.add("N_A", pkA.N)
	watch.add("NTilde/h1/h2", ap.NTildei, ap.H1i, ap.H2i, bp.NTildei, bp.H1i, bp.H2i)
	N2 := mul(pkA.N, pkA.N)
	alterCt := func(ct *big.Int, how string) *big.Int {
		switch how {
		case "+1":
			return add(ct, 1)
		case "-rand":
			return randUnit(N2)
		case "-add":
			e, _ := pkA.Encrypt(rand.Reader, new(big.Int).Mod(c.Delta.Big(), q))
			r, _ := pkA.HomoAdd(ct, e)
			return r
		case "-mult2":
			r, _ := pkA.HomoMult(big.NewInt(2), ct)
			return r
		case "-neg": // the same magnitude with a minus sign (lost by any copy through Bytes())
			return new(big.Int).Neg(ct)
		case "+N2": // congruent modulo N^2, not canonical (deliverable: wire values are byte strings of any length)
			return new(big.Int).Add(ct, mul(N2, big.NewInt(int64(1+len(c.Alter)%3))))
		}
		return ct
	}
	if c.Alter == "wrong-B-mirrored" {
		// a cheating Bob known by B = b*G puts q-b into the ciphertext, proves honestly for q-b and sends the mask
		// point negated: both sides of Alice's point equation then differ only in sign. Alice must reject
		// (alpha + beta would be -a*b). Calibration: the same reference prover, unmirrored, for the point
		// (q-b)*G must be accepted.
		if !c.WC || b.Sign() == 0 {
			out.Skip = true
			return out
		}
		bm := new(big.Int).Sub(q, b)
		B := crypto.ScalarBaseMult(cv.EC, b)
		y := randBelow(pow(q, 5))
		cY, r, _ := pkA.EncryptAndReturnRandomness(rand.Reader, y)
		cB, _ := pkA.HomoMult(bm, cA)
		cB, _ = pkA.HomoAdd(cB, cY)
		km := defaultBobMasks(q, pkA.N, ap.NTildei)
		ctl := refBobProof(sess, cv, pkA.N, ap.NTildei, ap.H1i, ap.H2i, cA, cB, bm, y, r, crypto.ScalarBaseMult(cv.EC, bm), km)
		if v, err := mta.AliceEndWC(sess, cv.EC, pkA, ctl, crypto.ScalarBaseMult(cv.EC, bm), cA, cB, ap.NTildei, ap.H1i, ap.H2i, ap.PaillierSK); err != nil || v == nil {
			out.Label += " (uncalibrated: reference prover not accepted)"
			out.Nontrivial = false
			return out
		}
		km.NegU = true
		pf := refBobProof(sess, cv, pkA.N, ap.NTildei, ap.H1i, ap.H2i, cA, cB, bm, y, r, B, km)
		if v, err := mta.AliceEndWC(sess, cv.EC, pkA, pf, B, cA, cB, ap.NTildei, ap.H1i, ap.H2i, ap.PaillierSK); err == nil || v != nil {
			return fail("wrong-point-accepted", "Alice accepted a with-check response for B = b*G although the multiplier used is q-b (mirrored mask point)")
		}
		return out
	}
	if c.Alter == "wrong-B-adaptive" {
		// a cheating Bob: multiplier b goes into the ciphertext, but he claims the point B' = (b+1)*G. He runs
		// the prover for B' with a mask he chose, recovers the challenge from his own response and picks U
		// afterwards so that the point equation holds for B'. Alice must reject (the challenge binds U).
		if !c.WC || b.Sign() == 0 {
			out.Skip = true
			return out
		}
		wrong := new(big.Int).Mod(add(b, 1), q)
		if wrong.Sign() == 0 {
			wrong = big.NewInt(5)
		}
		Bbad := crypto.ScalarBaseMult(cv.EC, wrong)
		y := randBelow(pow(q, 5))
		cY, r, _ := pkA.EncryptAndReturnRandomness(rand.Reader, y)
		cB, _ := pkA.HomoMult(b, cA)
		cB, _ = pkA.HomoAdd(cB, cY)
		q3 := pow(q, 3)
		alpha := add(new(big.Int).Rsh(q3, 3), 77)
		rd := &prefixReader{prefix: alpha.FillBytes(make([]byte, (q3.BitLen()+7)/8)), rest: rand.Reader}
		pf, err := mta.ProveBobWC(sess, cv.EC, pkA, ap.NTildei, ap.H1i, ap.H2i, cA, cB, b, y, r, Bbad, rd)
		if err != nil {
			out.Skip = true
			return out
		}
		xx := new(big.Int).Sub(pf.S1, alpha)
		if xx.Sign() < 0 || new(big.Int).Mod(xx, b).Sign() != 0 {
			out.Label += " (mask not steerable)"
			out.Nontrivial = false
			return out
		}
		e := new(big.Int).Div(xx, b)
		s1 := new(big.Int).Mod(pf.S1, q)
		em := new(big.Int).Mod(new(big.Int).Neg(e), q)
		if e.Cmp(q) >= 0 || s1.Sign() == 0 || em.Sign() == 0 {
			out.Skip = true
			return out
		}
		U2, err := crypto.ScalarBaseMult(cv.EC, s1).Add(Bbad.ScalarMult(em))
		if err != nil {
			out.Skip = true
			return out
		}
		forged := &mta.ProofBobWC{ProofBob: pf.ProofBob, U: U2}
		if v, err := mta.AliceEndWC(sess, cv.EC, pkA, forged, Bbad, cA, cB, ap.NTildei, ap.H1i, ap.H2i, ap.PaillierSK); err == nil || v != nil {
			return fail("wrong-point-accepted", "Alice accepted a response whose public point is not b*G (U chosen after the challenge)")
		}
		return out
	}
	cAforBob := cA
	if len(c.Alter) > 2 && c.Alter[:2] == "cA" {
		cAforBob = alterCt(cA, c.Alter[2:])
	}
	var B *crypto.ECPoint
	if c.WC {
		B = crypto.ScalarBaseMult(cv.EC, b)
	}
	var beta, cB *big.Int
	var piB *mta.ProofBob
	var piBWC *mta.ProofBobWC
	if c.WC {
		beta, cB, _, piBWC, err = mta.BobMidWC(sess, cv.EC, pkA, pfA, b, cAforBob, ap.NTildei, ap.H1i, ap.H2i, bp.NTildei, bp.H1i, bp.H2i, B, rand.Reader)
	} else {
		beta, cB, _, piB, err = mta.BobMid(sess, cv.EC, pkA, pfA, b, cAforBob, ap.NTildei, ap.H1i, ap.H2i, bp.NTildei, bp.H1i, bp.H2i, rand.Reader)
	}
	watch.add("cB", cB)
	watch.add("beta", beta)
	if cAforBob != cA {
		if err == nil {
			return fail("cA-altered-accepted", "Bob produced a response although Alice's ciphertext was altered in transit (%s)", c.Alter)
		}
		return out
	}
	if err != nil {
		return fail("bob-mid", "BobMid rejected an honest Alice (a class %s): %v", c.AC, err)
	}
	cBforAlice := cB
	if len(c.Alter) > 2 && c.Alter[:2] == "cB" {
		cBforAlice = alterCt(cB, c.Alter[2:])
	}
	cAforAlice := cA
	if c.Alter == "swap-c" {
		cBforAlice, cAforAlice = cA, cB
	}
	Bchk := B
	if c.Alter == "wrong-B" {
		if !c.WC {
			out.Skip = true
			return out
		}
		wrong := new(big.Int).Mod(add(b, 1), q)
		if wrong.Sign() == 0 {
			wrong = big.NewInt(5)
		}
		Bchk = crypto.ScalarBaseMult(cv.EC, wrong)
	}
	var alpha *big.Int
	if c.WC {
		alpha, err = mta.AliceEndWC(sess, cv.EC, pkA, piBWC, Bchk, cAforAlice, cBforAlice, ap.NTildei, ap.H1i, ap.H2i, ap.PaillierSK)
	} else {
		alpha, err = mta.AliceEnd(sess, cv.EC, pkA, piB, ap.H1i, ap.H2i, cAforAlice, cBforAlice, ap.NTildei, ap.PaillierSK)
	}
	if cBforAlice != cB || c.Alter == "wrong-B" || c.Alter == "swap-c" {
		if err == nil || alpha != nil {
			return fail("altered-accepted", "Alice produced a share although %s", c.Alter)
		}
		return out
	}
	if err != nil {
		return fail("alice-end", "AliceEnd rejected an honest Bob (b class %s): %v", c.BC, err)
	}
	want := new(big.Int).Mul(a, b)
	want.Mod(want, q)
	got := new(big.Int).Add(alpha, beta)
	got.Mod(got, q)
	if got.Cmp(want) != 0 {
		return fail("shares", "alpha + beta != a*b mod q (a class %s, b class %s)", c.AC, c.BC)
	}
	if alpha.Sign() < 0 || alpha.Cmp(q) >= 0 || beta.Sign() < 0 || beta.Cmp(q) >= 0 {
		return fail("share-range", "a share is outside [0,q)")
	}
	// alpha recomputed with the independent CRT decryption
	m, e := ref.PaillierDecryptCRT(cB, ap.PaillierSK.P, ap.PaillierSK.Q)
	if e != nil || new(big.Int).Mod(m, q).Cmp(alpha) != 0 {
		return fail("alpha-ref", "alpha differs from the reference decryption of cB")
	}
	// the session binds the response: Alice with another session must reject
	other := append(append([]byte{}, sess...), 1)
	if c.WC {
		if v, e := mta.AliceEndWC(other, cv.EC, pkA, piBWC, B, cA, cB, ap.NTildei, ap.H1i, ap.H2i, ap.PaillierSK); e == nil || v != nil {
			return fail("session", "Alice accepted Bob's response under another session")
		}
	} else {
		if v, e := mta.AliceEnd(other, cv.EC, pkA, piB, ap.H1i, ap.H2i, cA, cB, ap.NTildei, ap.PaillierSK); e == nil || v != nil {
			return fail("session", "Alice accepted Bob's response under another session")
		}
	}
	return out
}

func TestC13MtA(t *testing.T) {
	r := ev.New(t, "C13")
	ev.Drive(t, r, genC13, runC13)
}

// TestC13Grid: all 25 ordered parameter pairs x a,b in {0,1,q-1} x {no check, check}.
func TestC13Grid(t *testing.T) {
	r := ev.New(t, "C13")
	var cases []c13Case
	shard, shards := ev.Shard()
	k := 0
	q := ref.Secp.N
	vals := []struct {
		v *big.Int
		c string
	}{{big.NewInt(0), "0"}, {big.NewInt(1), "1"}, {add(q, -1), "m-1"}}
	for as := 0; as < 5; as++ {
		for bs := 0; bs < 5; bs++ {
			for ai, a := range vals {
				for bi, b := range vals {
					// the full value grid on two pairs, a diagonal of it elsewhere
					if !(as == 0 && bs <= 1) && ai != (bi+as+bs)%3 {
						continue
					}
					for _, wc := range []bool{false, true} {
						if wc && b.v.Sign() == 0 {
							continue
						}
						k++
						if k%shards != shard {
							continue
						}
						cases = append(cases, c13Case{Curve: "secp256k1", ASet: as, BSet: bs, A: hx(a.v), AC: a.c, B: hx(b.v), BC: b.c, WC: wc, Sess: bx([]byte("grid")), SessC: "short", Delta: "5"})
					}
				}
			}
		}
	}
	ev.Each(t, r, cases, runC13)
	r.SetExhaustive(true)
}

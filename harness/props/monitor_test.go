package props

// Round-engine reference model (DESIGN.md appendix A) and the C07/C08 monitor that checks every
// simulated run against it after every single step.

import (
	"bytes"
	"fmt"
	"sort"
	"strings"

	"github.com/bnb-chain/tss-lib/v2/tss"
	"google.golang.org/protobuf/proto"

	"verif/harness/sim"
)

type emitSpec struct {
	Type   string
	Bcast  bool
	Dest   string // all-others | each-other | new | old | old+new | each-new | each-other-new
	ToOld  bool
	ToBoth bool
	Secret bool
}

type needSpec struct {
	Type string
	From string // others | old | new | new-others
}

type roundModel struct {
	Emits []emitSpec
	Needs []needSpec
}

const (
	pEK = "binance.tsslib.ecdsa.keygen."
	pES = "binance.tsslib.ecdsa.signing."
	pER = "binance.tsslib.ecdsa.resharing."
	pDK = "binance.tsslib.eddsa.keygen."
	pDS = "binance.tsslib.eddsa.signing."
	pDR = "binance.tsslib.eddsa.resharing."
)

func bcastRound(t string) roundModel {
	return roundModel{Emits: []emitSpec{{Type: t, Bcast: true, Dest: "all-others"}}, Needs: []needSpec{{t, "others"}}}
}

// protocol -> role -> rounds (index 0 = round 1). The last entry is the result-emitting round.
var protoModels = map[string]map[string][]roundModel{
	"ecdsa-keygen": {"": {
		bcastRound(pEK + "KGRound1Message"),
		{Emits: []emitSpec{{Type: pEK + "KGRound2Message1", Dest: "each-other", Secret: true}, {Type: pEK + "KGRound2Message2", Bcast: true, Dest: "all-others"}},
			Needs: []needSpec{{pEK + "KGRound2Message1", "others"}, {pEK + "KGRound2Message2", "others"}}},
		bcastRound(pEK + "KGRound3Message"),
		{},
	}},
	"ecdsa-signing": {"": {
		{Emits: []emitSpec{{Type: pES + "SignRound1Message1", Dest: "each-other", Secret: true}, {Type: pES + "SignRound1Message2", Bcast: true, Dest: "all-others"}},
			Needs: []needSpec{{pES + "SignRound1Message1", "others"}, {pES + "SignRound1Message2", "others"}}},
		{Emits: []emitSpec{{Type: pES + "SignRound2Message", Dest: "each-other", Secret: true}}, Needs: []needSpec{{pES + "SignRound2Message", "others"}}},
		bcastRound(pES + "SignRound3Message"), bcastRound(pES + "SignRound4Message"), bcastRound(pES + "SignRound5Message"),
		bcastRound(pES + "SignRound6Message"), bcastRound(pES + "SignRound7Message"), bcastRound(pES + "SignRound8Message"),
		bcastRound(pES + "SignRound9Message"),
		{},
	}},
	"eddsa-keygen": {"": {
		bcastRound(pDK + "KGRound1Message"),
		{Emits: []emitSpec{{Type: pDK + "KGRound2Message1", Dest: "each-other", Secret: true}, {Type: pDK + "KGRound2Message2", Bcast: true, Dest: "all-others"}},
			Needs: []needSpec{{pDK + "KGRound2Message1", "others"}, {pDK + "KGRound2Message2", "others"}}},
		{},
	}},
	"eddsa-signing": {"": {
		bcastRound(pDS + "SignRound1Message"), bcastRound(pDS + "SignRound2Message"), bcastRound(pDS + "SignRound3Message"),
		{},
	}},
	"ecdsa-resharing": {
		"old": {
			{Emits: []emitSpec{{Type: pER + "DGRound1Message", Bcast: true, Dest: "new"}}},
			{Needs: []needSpec{{pER + "DGRound2Message2", "new"}}},
			{Emits: []emitSpec{{Type: pER + "DGRound3Message1", Dest: "each-new", Secret: true}, {Type: pER + "DGRound3Message2", Bcast: true, Dest: "new"}}},
			{Needs: []needSpec{{pER + "DGRound4Message2", "new"}}},
			{},
		},
		"new": {
			{Needs: []needSpec{{pER + "DGRound1Message", "old"}}},
			{Emits: []emitSpec{{Type: pER + "DGRound2Message2", Bcast: true, Dest: "old", ToOld: true}, {Type: pER + "DGRound2Message1", Bcast: true, Dest: "new"}},
				Needs: []needSpec{{pER + "DGRound2Message1", "new-others"}}},
			{Needs: []needSpec{{pER + "DGRound3Message1", "old"}, {pER + "DGRound3Message2", "old"}}},
			{Emits: []emitSpec{{Type: pER + "DGRound4Message1", Dest: "each-other-new", Secret: true}, {Type: pER + "DGRound4Message2", Bcast: true, Dest: "old+new", ToBoth: true}},
				Needs: []needSpec{{pER + "DGRound4Message2", "new-others"}, {pER + "DGRound4Message1", "new-others"}}},
			{},
		},
	},
	"eddsa-resharing": {
		"old": {
			{Emits: []emitSpec{{Type: pDR + "DGRound1Message", Bcast: true, Dest: "new"}}},
			{Needs: []needSpec{{pDR + "DGRound2Message", "new"}}},
			{Emits: []emitSpec{{Type: pDR + "DGRound3Message1", Dest: "each-new", Secret: true}, {Type: pDR + "DGRound3Message2", Bcast: true, Dest: "new"}}},
			{Needs: []needSpec{{pDR + "DGRound4Message", "new"}}},
			{},
		},
		"new": {
			{Needs: []needSpec{{pDR + "DGRound1Message", "old"}}},
			{Emits: []emitSpec{{Type: pDR + "DGRound2Message", Bcast: true, Dest: "old", ToOld: true}}},
			{Needs: []needSpec{{pDR + "DGRound3Message1", "old"}, {pDR + "DGRound3Message2", "old"}}},
			{Emits: []emitSpec{{Type: pDR + "DGRound4Message", Bcast: true, Dest: "old+new", ToBoth: true}}, Needs: []needSpec{{pDR + "DGRound4Message", "new-others"}}},
			{},
		},
	},
}

type monViolation struct{ Sig, Msg string }

type monitor struct {
	proto string
	net   *sim.Net
	// delivered[to][type][from] = delivered with the flag the type demands
	delivered     []map[string]map[int]bool
	emitted       []map[string][]*sim.Emit // per node, per type
	seenEmit      int
	lastRound     []int
	viol          []monViolation
	Secrets       [][][]byte // per node: byte strings that must never appear on the wire
	earlyArrivals int        // deliveries of a message belonging to a later round than the recipient's current one
	wfSteps       int        // WaitingFor evaluations
	wfPartial     int        // ... at which the awaited set was a proper non-empty subset of the peers
	wfKeys        map[string]bool
	skipWF        map[string]bool // known-finding signatures to tolerate (counted)
	knownHits     map[string]int
}

func newMonitor(proto string, net *sim.Net) *monitor {
	m := &monitor{proto: proto, net: net, wfKeys: map[string]bool{}, knownHits: map[string]int{}}
	for range net.Nodes {
		m.delivered = append(m.delivered, map[string]map[int]bool{})
		m.emitted = append(m.emitted, map[string][]*sim.Emit{})
		m.lastRound = append(m.lastRound, 0)
		m.Secrets = append(m.Secrets, nil)
	}
	prev := net.AfterStep
	net.AfterStep = func(s sim.Step) {
		if prev != nil {
			prev(s)
		}
		m.step(s)
	}
	return m
}

func (m *monitor) fail(sig, f string, a ...interface{}) {
	if len(m.viol) < 5 {
		m.viol = append(m.viol, monViolation{sig, fmt.Sprintf(f, a...)})
	}
}

func (m *monitor) rounds(node int) []roundModel {
	return protoModels[m.proto][m.net.Nodes[node].Role]
}

func (m *monitor) typeSpec(node int, typ string) (round int, spec emitSpec, ok bool) {
	for r, rm := range m.rounds(node) {
		for _, e := range rm.Emits {
			if e.Type == typ {
				return r + 1, e, true
			}
		}
	}
	return 0, emitSpec{}, false
}

// typeBcast: the channel kind a message type demands (from the sender role's model).
func (m *monitor) typeBcast(typ string) (bool, bool) {
	for _, rounds := range protoModels[m.proto] {
		for _, rm := range rounds {
			for _, e := range rm.Emits {
				if e.Type == typ {
					return e.Bcast, true
				}
			}
		}
	}
	return false, false
}

func (m *monitor) group(node int, from string) []int {
	var out []int
	for _, nd := range m.net.Nodes {
		switch from {
		case "others":
			if nd.Idx != node {
				out = append(out, nd.Idx)
			}
		case "old":
			if nd.Role == "old" {
				out = append(out, nd.Idx)
			}
		case "new":
			if nd.Role == "new" {
				out = append(out, nd.Idx)
			}
		case "new-others":
			if nd.Role == "new" && nd.Idx != node {
				out = append(out, nd.Idx)
			}
		}
	}
	return out
}

// awaited: peers from whom a message required by round r has not been delivered (correct channel) to node.
func (m *monitor) awaited(node, r int) []int {
	rounds := m.rounds(node)
	if r < 1 || r > len(rounds) {
		return nil
	}
	set := map[int]bool{}
	for _, nd := range rounds[r-1].Needs {
		for _, from := range m.group(node, nd.From) {
			if !m.delivered[node][nd.Type][from] {
				set[from] = true
			}
		}
	}
	out := make([]int, 0, len(set))
	for k := range set {
		out = append(out, k)
	}
	sort.Ints(out)
	return out
}

// needRound: the round of `node` that requires message type typ (0 if none).
func (m *monitor) needRound(node int, typ string) int {
	for r, rm := range m.rounds(node) {
		for _, nd := range rm.Needs {
			if nd.Type == typ {
				return r + 1
			}
		}
	}
	return 0
}

func parseRound(s string) (int, bool) {
	if strings.Contains(s, "No more rounds") {
		return 0, true
	}
	i := strings.LastIndex(s, "round: ")
	if i < 0 {
		return -1, false
	}
	var r int
	fmt.Sscanf(s[i+7:], "%d", &r)
	return r, false
}

func (m *monitor) step(s sim.Step) {
	net := m.net
	// 1. record the delivery (only a delivery on the channel kind the type demands counts)
	if s.Kind != sim.StepStart && s.D != nil && s.D.E != nil && !net.Nodes[s.Node].Dead {
		d := s.D
		if s.Kind == sim.StepDeliver {
			cur := m.lastRound[s.Node]
			if cur == 0 {
				cur = 1
			}
			if mr := m.needRound(s.Node, d.E.Type); mr > cur && net.Nodes[s.Node].Started {
				m.earlyArrivals++
			}
		}
		want, known := m.typeBcast(d.E.Type)
		if known && want == d.Bcast && d.Tag == "" && net.Nodes[s.Node].Started {
			if m.delivered[s.Node][d.E.Type] == nil {
				m.delivered[s.Node][d.E.Type] = map[int]bool{}
			}
			m.delivered[s.Node][d.E.Type][d.E.From] = true
		} else if known && want == d.Bcast && d.Tag == "" {
			// delivered before Start: stored by the party, counts as delivered
			if m.delivered[s.Node][d.E.Type] == nil {
				m.delivered[s.Node][d.E.Type] = map[int]bool{}
			}
			m.delivered[s.Node][d.E.Type][d.E.From] = true
		}
	}
	// 2. new emissions
	for ; m.seenEmit < len(net.Emits); m.seenEmit++ {
		m.checkEmit(net.Emits[m.seenEmit])
	}
	// 3. WaitingFor exactness, after an Update* call that returned without error
	if s.Kind != sim.StepStart && s.Err == nil {
		m.checkWaiting(s.Node)
	}
}

func (m *monitor) checkEmit(e *sim.Emit) {
	net := m.net
	from := e.From
	r, spec, ok := m.typeSpec(from, e.Type)
	if !ok {
		m.fail("emit-unknown-type", "node %d (%s) emitted %s, which its role never sends", from, net.Nodes[from].Role, e.Type)
		return
	}
	m.emitted[from][e.Type] = append(m.emitted[from][e.Type], e)
	// flags
	if e.Bcast != spec.Bcast {
		m.fail("emit-flag", "%s from node %d has IsBroadcast=%v, protocol prescribes %v", e.Type, from, e.Bcast, spec.Bcast)
	}
	if spec.Secret && (e.Bcast || len(e.ToIDs) != 1) {
		m.fail("emit-secret-routing", "secret-bearing %s from node %d is not addressed to exactly one recipient (bcast=%v, %d recipients)", e.Type, from, e.Bcast, len(e.ToIDs))
	}
	if e.ToOld != spec.ToOld || e.ToOldNew != spec.ToBoth {
		m.fail("emit-committee-flag", "%s from node %d has committee flags old=%v both=%v", e.Type, from, e.ToOld, e.ToOldNew)
	}
	// recipients
	var want []int
	switch spec.Dest {
	case "all-others":
		want = m.group(from, "others")
	case "new":
		for _, j := range m.group(from, "new") {
			if j != from {
				want = append(want, j)
			}
		}
	case "old":
		for _, j := range m.group(from, "old") {
			if j != from {
				want = append(want, j)
			}
		}
	case "old+new":
		want = m.group(from, "others")
	}
	if spec.Bcast {
		got := append([]int{}, e.To...)
		sort.Ints(got)
		if fmt.Sprint(got) != fmt.Sprint(want) {
			m.fail("emit-recipients", "broadcast %s from node %d goes to %v, protocol prescribes %v", e.Type, from, got, want)
		}
		if spec.Dest == "all-others" && e.ToIDs != nil && len(e.ToIDs) != len(want) && len(e.ToIDs) != len(want)+1 {
			m.fail("emit-recipients", "broadcast %s from node %d carries an unexpected To list", e.Type, from)
		}
		if len(m.emitted[from][e.Type]) > 1 {
			m.fail("emit-duplicate", "node %d emitted %s %d times", from, e.Type, len(m.emitted[from][e.Type]))
		}
	} else {
		if len(e.To) != 1 {
			m.fail("emit-recipients", "p2p %s from node %d resolves to %d recipients", e.Type, from, len(e.To))
		} else {
			var pool []int
			switch spec.Dest {
			case "each-other":
				pool = m.group(from, "others")
			case "each-new":
				pool = m.group(from, "new")
			case "each-other-new":
				pool = m.group(from, "new-others")
			}
			okTo := false
			for _, j := range pool {
				if j == e.To[0] {
					okTo = true
				}
			}
			if !okTo {
				m.fail("emit-recipients", "p2p %s from node %d addressed to node %d, outside %v", e.Type, from, e.To[0], pool)
			}
			for _, prev := range m.emitted[from][e.Type][:len(m.emitted[from][e.Type])-1] {
				if len(prev.To) == 1 && prev.To[0] == e.To[0] {
					m.fail("emit-duplicate", "node %d sent %s to node %d twice", from, e.Type, e.To[0])
				}
			}
		}
	}
	// timing: everything rounds < r need must already have been delivered to the sender
	for q := 1; q < r; q++ {
		if aw := m.awaited(from, q); len(aw) > 0 {
			m.fail("emit-early", "node %d emitted round-%d message %s although round %d still lacks messages from %v", from, r, e.Type, q, aw)
			break
		}
	}
	// wire round trip
	if pm, ok := e.Msg.(tss.ParsedMessage); ok {
		back, err := tss.ParseWireMessage(e.Bytes, net.Nodes[from].ID, e.Bcast)
		if err != nil {
			m.fail("wire-roundtrip", "%s from node %d does not parse back: %v", e.Type, from, err)
		} else if back.Type() != e.Type || !proto.Equal(back.Content(), pm.Content()) {
			m.fail("wire-roundtrip", "%s from node %d changes through the wire encoding", e.Type, from)
		} else if !back.ValidateBasic() {
			m.fail("wire-roundtrip", "%s from node %d fails ValidateBasic after the wire round trip", e.Type, from)
		}
	}
}

func (m *monitor) checkWaiting(node int) {
	nd := m.net.Nodes[node]
	if !nd.Started || nd.Errored() {
		return
	}
	r, done := parseRound(nd.P.String())
	wf := nd.P.WaitingFor()
	got := map[int]bool{}
	for _, id := range wf {
		j := -1
		for _, o := range m.net.Nodes {
			if o.ID == id {
				j = o.Idx
			}
		}
		if j < 0 {
			m.fail("waitingfor-unknown", "node %d reports an unknown party %v as awaited", node, id)
			return
		}
		got[j] = true
	}
	gl := make([]int, 0, len(got))
	for k := range got {
		gl = append(gl, k)
	}
	sort.Ints(gl)
	m.wfSteps++
	if done || nd.Finished() {
		if len(gl) != 0 {
			m.failWF(node, r, "waitingfor-after-finish", fmt.Sprintf("node %d has finished (%s) but still reports %v as awaited", node, nd.P.String(), gl))
		}
		if done && !nd.Finished() {
			m.fail("finished-without-result", "node %d reports no more rounds but never emitted a result", node)
		}
		return
	}
	if r < m.lastRound[node] {
		m.fail("round-regressed", "node %d went from round %d back to round %d", node, m.lastRound[node], r)
	}
	m.lastRound[node] = r
	for q := 1; q < r; q++ {
		if aw := m.awaited(node, q); len(aw) > 0 {
			m.fail("round-ahead", "node %d reports round %d although round %d still lacks messages from %v", node, r, q, aw)
			return
		}
	}
	want := m.awaited(node, r)
	if len(want) > 0 && len(want) < len(m.net.Nodes)-1 {
		m.wfPartial++
		m.wfKeys[fmt.Sprintf("%s/%s/r%d/awaited=%d", m.proto, nd.Role, r, len(want))] = true
	}
	if fmt.Sprint(want) != fmt.Sprint(gl) {
		kind := "waitingfor-over"
		for _, w := range want {
			if !got[w] {
				kind = "waitingfor-under"
			}
		}
		m.failWF(node, r, kind, fmt.Sprintf("node %d (%s) in round %d reports awaited=%v, but the peers with an undelivered required message are %v", node, nd.Role, r, gl, want))
		return
	}
	if len(want) == 0 && r < len(m.rounds(node)) {
		m.fail("round-behind", "node %d stays in round %d after an update although everything the round requires was delivered", node, r)
	}
}

func (m *monitor) failWF(node, r int, kind, msg string) {
	sig := fmt.Sprintf("%s:%s/%s/r%d", kind, m.proto, m.net.Nodes[node].Role, r)
	if m.skipWF != nil && m.skipWF[sig] {
		m.knownHits[sig]++
		return
	}
	if len(m.viol) < 5 {
		m.viol = append(m.viol, monViolation{sig, msg})
	}
}

// Finish runs the end-of-run checks: completeness of emissions (only for complete honest runs) and secrecy.
func (m *monitor) Finish(complete bool) {
	net := m.net
	if complete {
		for _, nd := range net.Nodes {
			for r, rm := range m.rounds(nd.Idx) {
				for _, es := range rm.Emits {
					got := len(m.emitted[nd.Idx][es.Type])
					want := 1
					switch es.Dest {
					case "each-other":
						want = len(m.group(nd.Idx, "others"))
					case "each-new":
						want = len(m.group(nd.Idx, "new"))
					case "each-other-new":
						want = len(m.group(nd.Idx, "new-others"))
					}
					if got != want {
						m.fail("emit-missing", "node %d (%s) emitted %s %d times in a complete run, round %d prescribes %d", nd.Idx, nd.Role, es.Type, got, r+1, want)
					}
				}
			}
		}
	}
	for _, e := range net.Emits {
		for _, sec := range m.Secrets[e.From] {
			if len(sec) >= 16 && bytes.Contains(e.Bytes, sec) {
				m.fail("secret-on-wire", "%s from node %d contains one of the sender's long-term secrets (%d bytes)", e.Type, e.From, len(sec))
			}
		}
	}
}

func (m *monitor) first() *monViolation {
	if len(m.viol) == 0 {
		return nil
	}
	return &m.viol[0]
}

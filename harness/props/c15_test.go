package props

// C15 — Feldman VSS: shares verify, reconstruct with t+1, and bad input is refused.

import (
	"crypto/rand"
	"fmt"
	"math/big"
	"testing"

	"github.com/bnb-chain/tss-lib/v2/crypto"
	"github.com/bnb-chain/tss-lib/v2/crypto/vss"
	"pgregory.net/rapid"

	"verif/harness/ev"
	"verif/harness/ref"
)

type c15Case struct {
	Curve   string
	T, N    int
	Secret  H
	SecretC string
	Pattern string
	IDs     []H
	Refuse  string // "" or the refusal pattern applied to IDs
	AltIdx  int
}

func genC15(t *rapid.T) c15Case {
	c := c15Case{}
	c.Curve = rapid.SampledFrom([]string{"secp256k1", "ed25519"}).Draw(t, "curve")
	cv := getCurve(c.Curve)
	c.T = rapid.IntRange(1, 5).Draw(t, "t")
	maxN := 7
	if ev.Tier() == "thorough" && rapid.IntRange(0, 9).Draw(t, "big") == 0 {
		maxN = 20
	}
	c.N = rapid.IntRange(c.T+1, maxN).Draw(t, "n")
	s, cls := boundaryBelow(t, "secret", cv.Q)
	if c.Curve == "secp256k1" && s.Sign() == 0 {
		s, cls = big.NewInt(1), "1" // identity is not representable on secp256k1
	}
	c.Secret, c.SecretC = hx(s), cls
	c.Pattern = rapid.SampledFrom([]string{"1..n", "random", ">=q", "q+k", "2q+k", "mixed", "near-q"}).Draw(t, "pattern")
	ids := make([]*big.Int, c.N)
	used := map[string]bool{}
	for i := range ids {
		for tries := 0; ; tries++ {
			var v *big.Int
			pat := c.Pattern
			if pat == "mixed" {
				pat = rapid.SampledFrom([]string{"1..n", "random", ">=q", "q+k", "2q+k", "near-q"}).Draw(t, "pat")
			}
			switch pat {
			case "1..n":
				v = big.NewInt(int64(i + 1 + tries))
			case "random":
				v = drawBigBits(t, "id", 256)
			case ">=q":
				v = new(big.Int).Add(cv.Q, drawBigBits(t, "id", 250))
				v.Add(v, one)
			case "q+k":
				v = add(cv.Q, int64(i+1+tries))
			case "2q+k":
				v = add(new(big.Int).Lsh(cv.Q, 1), int64(i+3+tries))
			case "near-q":
				v = add(cv.Q, -int64(i+1+tries))
			}
			m := new(big.Int).Mod(v, cv.Q)
			if m.Sign() != 0 && !used[m.String()] {
				used[m.String()] = true
				ids[i] = v
				break
			}
		}
	}
	c.Refuse = rapid.SampledFrom([]string{"", "", "", "", "", "", "zero", "q", "2q", "dup", "dup+q"}).Draw(t, "refuse")
	k := rapid.IntRange(0, c.N-1).Draw(t, "k")
	k2 := (k + 1) % c.N
	switch c.Refuse {
	case "zero":
		ids[k] = big.NewInt(0)
	case "q":
		ids[k] = new(big.Int).Set(cv.Q)
	case "2q":
		ids[k] = new(big.Int).Lsh(cv.Q, 1)
	case "dup":
		ids[k] = new(big.Int).Set(ids[k2])
	case "dup+q":
		ids[k] = new(big.Int).Add(ids[k2], cv.Q)
	}
	c.IDs = hxs(ids)
	c.AltIdx = rapid.IntRange(0, 1000).Draw(t, "alt")
	return c
}

func subsetsOf(n int) [][]int {
	var out [][]int
	for mask := 1; mask < 1<<uint(n); mask++ {
		var s []int
		for i := 0; i < n; i++ {
			if mask&(1<<uint(i)) != 0 {
				s = append(s, i)
			}
		}
		out = append(out, s)
	}
	return out
}

func runC15(c c15Case) (out ev.Outcome) {
	var watch bigWatch
	defer func() { watch.finish(&out, "VSS") }()
	cv := getCurve(c.Curve)
	ids := bigs(c.IDs)
	secret := c.Secret.Big()
	big256 := false
	for _, id := range ids {
		if id.Cmp(cv.Q) >= 0 {
			big256 = true
		}
	}
	out = ev.Outcome{
		Label:      fmt.Sprintf("vss %s t=%d n=%d secret=%s ids=%s refuse=%s", c.Curve, c.T, c.N, c.SecretC, c.Pattern, c.Refuse),
		Nontrivial: big256 || c.Refuse != "" || c.N > c.T+1,
	}
	fail := func(sig, f string, a ...interface{}) ev.Outcome {
		out.Err, out.Sig = fmt.Errorf(f, a...), sig
		return out
	}
	var vs vss.Vs
	var shares vss.Shares
	var err error
	watch.add("secret", secret)
	watch.add("id", ids...)
	if p := mustNoPanic(func() { vs, shares, err = vss.Create(cv.EC, c.T, secret, ids, rand.Reader) }); p != nil {
		return fail("create-panic", "vss.Create panicked: %v", p)
	}
	if c.Refuse != "" {
		if err == nil {
			return fail("refusal-missing", "vss.Create accepted an inadmissible id set (%s): %v", c.Refuse, c.IDs)
		}
		if _, e2 := vss.CheckIndexes(cv.EC, ids); e2 == nil {
			return fail("refusal-missing", "CheckIndexes accepted an inadmissible id set (%s)", c.Refuse)
		}
		return out
	}
	if err != nil {
		return fail("create-refused", "vss.Create refused admissible input: %v", err)
	}
	if len(vs) != c.T+1 || len(shares) != c.N {
		return fail("create-shape", "vss.Create returned %d commitments and %d shares for t=%d n=%d", len(vs), len(shares), c.T, c.N)
	}
	// first commitment = secret*G (reference)
	if x, y, ok := cv.refBaseMul(secret); ok {
		if !ptEq(vs[0], x, y) {
			return fail("v0", "Vs[0] != secret*G")
		}
	}
	xs := make([]*big.Int, c.N)
	ys := make([]*big.Int, c.N)
	for i, sh := range shares {
		if sh.ID.Cmp(ids[i]) != 0 || sh.Threshold != c.T {
			return fail("share-meta", "share %d carries id %v threshold %d", i, sh.ID, sh.Threshold)
		}
		if sh.Share.Sign() < 0 || sh.Share.Cmp(cv.Q) >= 0 {
			return fail("share-range", "share %d out of [0,q)", i)
		}
		xs[i], ys[i] = new(big.Int).Mod(ids[i], cv.Q), sh.Share
		if !sh.Verify(cv.EC, c.T, vs) {
			return fail("verify-own", "share %d does not verify under its own id", i)
		}
		// share*G must equal the reference evaluation of the commitments in the exponent (checked via ref below)
		for j := range ids {
			if j == i {
				continue
			}
			other := &vss.Share{Threshold: c.T, ID: ids[j], Share: sh.Share}
			if other.Verify(cv.EC, c.T, vs) {
				return fail("verify-other-id", "share %d verifies under the id of party %d", i, j)
			}
		}
	}
	// one polynomial of degree t: the first t+1 shares predict every other one (reference interpolation)
	for j := c.T + 1; j < c.N; j++ {
		pred, e := ref.Interpolate(xs[:c.T+1], ys[:c.T+1], xs[j], cv.Q)
		if e != nil || pred.Cmp(ys[j]) != 0 {
			return fail("degree", "share %d is not on the degree-%d polynomial through the first %d shares", j, c.T, c.T+1)
		}
	}
	// and that polynomial's constant term is the secret
	if v0, e := ref.Interpolate(xs[:c.T+1], ys[:c.T+1], big.NewInt(0), cv.Q); e != nil || v0.Cmp(new(big.Int).Mod(secret, cv.Q)) != 0 {
		return fail("constant-term", "reference interpolation at 0 does not give the secret")
	}
	// subsets
	var subs [][]int
	if c.N <= 7 {
		subs = subsetsOf(c.N)
	} else { // sampled: prefixes, suffixes and strided subsets of each size
		for sz := 1; sz <= c.N; sz++ {
			a, b, s := []int{}, []int{}, []int{}
			for k := 0; k < sz; k++ {
				a = append(a, k)
				b = append(b, c.N-1-k)
				s = append(s, (k*3+c.AltIdx)%c.N)
			}
			subs = append(subs, a, b)
			seen := map[int]bool{}
			okS := true
			for _, v := range s {
				if seen[v] {
					okS = false
				}
				seen[v] = true
			}
			if okS {
				subs = append(subs, s)
			}
		}
	}
	for _, sh := range shares {
		watch.add("share", sh.Share)
		watch.add("share-id", sh.ID)
	}
	for _, v := range vs {
		watch.add("commitment", v.X(), v.Y())
	}
	want := new(big.Int).Mod(secret, cv.Q)
	for _, s := range subs {
		sub := make(vss.Shares, len(s))
		for k, idx := range s {
			sub[k] = shares[idx]
		}
		var got *big.Int
		var rerr error
		if p := mustNoPanic(func() { got, rerr = sub.ReConstruct(cv.EC) }); p != nil {
			return fail("reconstruct-panic", "ReConstruct panicked on subset %v: %v", s, p)
		}
		if len(s) >= c.T+1 {
			if rerr != nil || got == nil || got.Cmp(want) != 0 {
				return fail("reconstruct", "subset %v (size %d >= t+1) reconstructs %v err=%v, want the secret", s, len(s), got, rerr)
			}
		} else if rerr == nil && got != nil && got.Cmp(want) == 0 {
			return fail("reconstruct-below-threshold", "subset %v of size %d <= t reconstructs the secret", s, len(s))
		}
	}
	// single-component alterations
	i := c.AltIdx % c.N
	sh := shares[i]
	for _, d := range []int64{1, -1} {
		alt := &vss.Share{Threshold: c.T, ID: sh.ID, Share: new(big.Int).Mod(add(sh.Share, d), cv.Q)}
		if alt.Share.Sign() == 0 && c.Curve == "secp256k1" {
			continue // share = 0 mod q: identity not representable (C06 covers the crash class)
		}
		if alt.Verify(cv.EC, c.T, vs) {
			return fail("alter-share", "share %d %+d still verifies", i, d)
		}
	}
	// the negated share (q - share, 2q - share): the image point differs from the expected one only in sign
	for _, m := range []int64{1, 2} {
		neg := new(big.Int).Sub(mul(cv.Q, big.NewInt(m)), new(big.Int).Mod(sh.Share, cv.Q))
		if new(big.Int).Mod(neg, cv.Q).Cmp(new(big.Int).Mod(sh.Share, cv.Q)) == 0 || new(big.Int).Mod(neg, cv.Q).Sign() == 0 {
			continue
		}
		if (&vss.Share{Threshold: c.T, ID: sh.ID, Share: neg}).Verify(cv.EC, c.T, vs) {
			return fail("alter-share", "the negated share %d*q - share of party %d still verifies", m, i)
		}
	}
	nid := add(sh.ID, 1)
	if new(big.Int).Mod(nid, cv.Q).Sign() == 0 { // id = 0 mod q is outside the verifier's domain (C06 covers it)
		nid = add(nid, 1)
	}
	altID := &vss.Share{Threshold: c.T, ID: nid, Share: sh.Share}
	if altID.Verify(cv.EC, c.T, vs) {
		return fail("alter-id", "share %d verifies under id+1", i)
	}
	// ids that are 0 modulo the group order: no share belongs to them, so neither the dealt share nor the
	// secret itself (f(0)) may verify there, and the call must return
	for _, zid := range []*big.Int{big.NewInt(0), cv.Q, mul(cv.Q, big.NewInt(2))} {
		for _, val := range []*big.Int{sh.Share, want} {
			if new(big.Int).Mod(val, cv.Q).Sign() == 0 {
				continue
			}
			z := &vss.Share{Threshold: c.T, ID: zid, Share: val}
			var ok bool
			if p := mustNoPanic(func() { ok = z.Verify(cv.EC, c.T, vs) }); p != nil {
				return fail("alter-id-zero-panic", "Verify panicked for id %v (0 mod q): %v", zid, p)
			}
			if ok {
				return fail("alter-id-zero", "a share verifies under id %v, which is 0 modulo the group order", zid)
			}
		}
	}
	g := crypto.ScalarBaseMult(cv.EC, big.NewInt(1))
	for k := 0; k <= c.T; k++ {
		vs2 := append(vss.Vs{}, vs...)
		p, e := vs2[k].Add(g)
		if e != nil {
			continue
		}
		vs2[k] = p
		if sh.Verify(cv.EC, c.T, vs2) {
			return fail("alter-commitment", "share %d verifies after commitment %d was replaced by V_k+G", i, k)
		}
	}
	// wrong arity / threshold
	if sh.Verify(cv.EC, c.T, vs[:c.T]) || sh.Verify(cv.EC, c.T+1, vs) {
		return fail("alter-arity", "share verifies against a commitment list of the wrong length")
	}
	return out
}

func TestC15VSS(t *testing.T) {
	r := ev.New(t, "C15")
	ev.Drive(t, r, genC15, runC15)
}

// TestC15SmallExhaustive: every (t,n) with 1<=t<n<=6 (7 in thorough), both curves, ids 1..n and q+1..q+n, all subsets.
func TestC15SmallExhaustive(t *testing.T) {
	r := ev.New(t, "C15")
	var cases []c15Case
	maxN := ev.Scale(6, 7)
	for _, curve := range []string{"secp256k1", "ed25519"} {
		cv := getCurve(curve)
		for n := 2; n <= maxN; n++ {
			for th := 1; th < n; th++ {
				for _, pat := range []string{"1..n", "q+k"} {
					ids := make([]*big.Int, n)
					for i := range ids {
						if pat == "1..n" {
							ids[i] = big.NewInt(int64(i + 1))
						} else {
							ids[i] = add(cv.Q, int64(i+1))
						}
					}
					sec := new(big.Int).Sub(cv.Q, big.NewInt(int64(n*10+th)))
					cases = append(cases, c15Case{Curve: curve, T: th, N: n, Secret: hx(sec), SecretC: "near-q", Pattern: pat, IDs: hxs(ids), AltIdx: n + th})
				}
			}
		}
	}
	ev.Each(t, r, cases, runC15)
	r.SetExhaustive(true)
}

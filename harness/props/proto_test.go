package props

// A uniform way to build and judge a run of any of the six protocols (used by C04-C09, C20).

import (
	"bytes"
	"context"
	"crypto/rand"
	"encoding/json"
	"fmt"
	"math/big"
	"strings"
	"sync"
	"time"

	"github.com/bnb-chain/tss-lib/v2/common"
	"github.com/bnb-chain/tss-lib/v2/crypto/paillier"

	eckeygen "github.com/bnb-chain/tss-lib/v2/ecdsa/keygen"
	edkeygen "github.com/bnb-chain/tss-lib/v2/eddsa/keygen"
	"github.com/bnb-chain/tss-lib/v2/tss"
	"pgregory.net/rapid"

	"verif/harness/ev"
	"verif/harness/ref"
	"verif/harness/sim"
)

type protoRun struct {
	Proto            string // ecdsa-keygen | ecdsa-signing | ecdsa-resharing | eddsa-keygen | eddsa-signing | eddsa-resharing
	Key              keyChoice
	Keys             []H    `json:",omitempty"` // keygen: party keys (drawn order)
	Members          []int  `json:",omitempty"` // signing: signers; resharing: participating old members (party indices, drawn order)
	Msg              H      `json:",omitempty"`
	NewKeys          []H    `json:",omitempty"` // resharing: new committee party keys
	NewT             int    `json:",omitempty"`
	Proofs           bool   `json:",omitempty"` // ECDSA resharing: mod/fac proofs on (production path)
	BadXi            []int  `json:",omitempty"` // positions in Members whose party runs with a wrong secret share (Xi+1)
	WeakPre          []int  `json:",omitempty"` // ECDSA keygen / resharing: sorted party indices (new-committee indices) that bring under-sized parameters
	WeakBits         int    `json:",omitempty"`
	ProofMode        string `json:",omitempty"` // ECDSA keygen / resharing: "" (keygen: both on; resharing: as Proofs says), "mod" or "fac": only that proof is on
	IDStyle          string `json:",omitempty"` // "", "blank", "shared": the free-form id strings of the parties (must not matter)
	OtherGlobalCurve bool   `json:",omitempty"` // the deprecated process-global curve (tss.SetCurve) is set to the curve this protocol does NOT use
	ShortSSID        bool   `json:",omitempty"` // dealer keys, signing / resharing: search the dealer seed for a session id with a leading zero byte
	GenPre           []int  `json:",omitempty"` // ECDSA keygen / resharing: sorted (new-committee) indices whose party gets no pre-parameters: the library generates them
}

func (p protoRun) edd() bool { return p.Proto[:5] == "eddsa" }

// noProof: is the named proof ("mod" / "fac") switched off in this ECDSA resharing?
func (p protoRun) noProof(which string) bool {
	if p.ProofMode != "" {
		return p.ProofMode != which
	}
	return !p.Proofs
}

func (p protoRun) String() string {
	if p.OtherGlobalCurve {
		q := p
		q.OtherGlobalCurve = false
		return q.String() + " global-curve=other"
	}
	if p.IDStyle != "" {
		q := p
		q.IDStyle = ""
		return q.String() + " id-strings=" + p.IDStyle
	}
	if p.ProofMode != "" {
		q := p
		q.ProofMode = ""
		return q.String() + " only-proof=" + p.ProofMode
	}
	if p.ShortSSID {
		q := p
		q.ShortSSID = false
		kb, _ := json.Marshal(q)
		shortSeedMu.Lock()
		sd := shortSeeds[string(kb)]
		shortSeedMu.Unlock()
		if sd == "" {
			return q.String()
		}
		return q.String() + " ssid<32B"
	}
	switch p.Proto {
	case "ecdsa-keygen", "eddsa-keygen":
		return fmt.Sprintf("%s n=%d t=%d keys=%s", p.Proto, p.Key.N, p.Key.T, p.Key.Pattern)
	case "ecdsa-signing", "eddsa-signing":
		return fmt.Sprintf("%s %s |S|=%d", p.Proto, p.Key, len(p.Members))
	}
	rel := "="
	if p.NewT < p.Key.T {
		rel = "<"
	} else if p.NewT > p.Key.T {
		rel = ">"
	}
	return fmt.Sprintf("%s %s |old|=%d -> n'=%d t'=%d(%st) proofs=%v", p.Proto, p.Key, len(p.Members), len(p.NewKeys), p.NewT, rel, p.Proofs)
}

func deepCopyEC(k eckeygen.LocalPartySaveData) eckeygen.LocalPartySaveData {
	bz := jsonOf(k)
	var out eckeygen.LocalPartySaveData
	if err := json.Unmarshal(bz, &out); err != nil {
		panic(ev.Raised{Sig: "deserialise", Msg: fmt.Sprintf("key data does not load back from its own JSON: %v", err)})
	}
	return out
}

func deepCopyED(k edkeygen.LocalPartySaveData) edkeygen.LocalPartySaveData {
	bz := jsonOf(k)
	var out edkeygen.LocalPartySaveData
	if err := json.Unmarshal(bz, &out); err != nil {
		panic(ev.Raised{Sig: "deserialise", Msg: fmt.Sprintf("key data does not load back from its own JSON: %v", err)})
	}
	return out
}

// jsonOf serialises key data (or any value) the way an application stores it. Key data that cannot be
// serialised is a violation of whatever property the case belongs to (C20 states it; the others rely on it).
func jsonOf(v interface{}) []byte {
	bz, err := json.Marshal(v)
	if err != nil {
		panic(ev.Raised{Sig: "serialise", Msg: fmt.Sprintf("json.Marshal of %T failed: %v", v, err)})
	}
	return bz
}

type runCtx struct {
	p       protoRun
	net     *sim.Net
	cv      curveRef
	ids     tss.SortedPartyIDs // keygen/signing ids, or old ids
	newIDs  tss.SortedPartyIDs
	pubX    *big.Int
	pubY    *big.Int
	t       int
	pre     []eckeygen.LocalPreParams
	heldEC  []eckeygen.LocalPartySaveData // caller-held key data given to signing / old resharing parties (by node order)
	heldED  []edkeygen.LocalPartySaveData
	snapEC  [][]byte // JSON snapshots of the held data at construction
	snapED  [][]byte
	nOld    int
	digest  *big.Int
	secrets [][][]byte
}

func secretBytes(vs ...*big.Int) [][]byte {
	var out [][]byte
	for _, v := range vs {
		if v != nil && v.BitLen() >= 128 {
			out = append(out, v.Bytes())
		}
	}
	return out
}

func ecSecrets(k *eckeygen.LocalPartySaveData) [][]byte {
	s := secretBytes(k.Xi, k.Alpha, k.Beta, k.P, k.Q)
	if k.PaillierSK != nil {
		s = append(s, secretBytes(k.PaillierSK.P, k.PaillierSK.Q, k.PaillierSK.LambdaN, k.PaillierSK.PhiN)...)
	}
	return s
}

var shortSeedMu sync.Mutex
var shortSeeds = map[string]string{}

// withShortSSID: for dealer keys, the dealer seed is searched so that the session id of this run has a leading
// zero byte (signing: the harness reproduces the id; resharing: the id is read off the first old member's
// round-1 message, where it travels in clear). Not found / not applicable: the run is returned unchanged.
func (p protoRun) withShortSSID() protoRun {
	p.ShortSSID = false
	if p.Key.Src != "dealer" || p.Proto == "ecdsa-keygen" || p.Proto == "eddsa-keygen" || p.Proto == "eddsa-resharing" {
		return p // key generation ids depend on the party keys only; EdDSA resharing has no session id
	}
	kb, _ := json.Marshal(p)
	shortSeedMu.Lock()
	if sd, ok := shortSeeds[string(kb)]; ok {
		shortSeedMu.Unlock()
		if sd != "" {
			p.Key.Seed = sd
		}
		return p
	}
	shortSeedMu.Unlock()
	found := ""
	for i := 0; i < 3000 && found == ""; i++ {
		q := p
		q.Key.Seed = fmt.Sprintf("%s~%d", p.Key.Seed, i)
		var ssid []byte
		switch p.Proto {
		case "ecdsa-signing":
			ssid = ecSigningSSID(dealKeys(false, q.Key.N, q.Key.T, q.Key.Pattern, q.Key.Seed).EC, q.Members)
		case "eddsa-signing":
			ssid = edSigningSSID(dealKeys(true, q.Key.N, q.Key.T, q.Key.Pattern, q.Key.Seed).ED, q.Members)
		default:
			// the new committee's party keys were drawn distinct from the ORIGINAL old committee's: a candidate
			// seed whose old keys meet them (as integers or modulo the group order) is outside the generated domain
			cv := getCurve("secp256k1")
			if p.edd() {
				cv = getCurve("ed25519")
			}
			clash := false
			for _, ok := range dealKeys(p.edd(), q.Key.N, q.Key.T, q.Key.Pattern, q.Key.Seed).Keys {
				for _, nk := range bigs(p.NewKeys) {
					if new(big.Int).Mod(ok, cv.Q).Cmp(new(big.Int).Mod(nk, cv.Q)) == 0 {
						clash = true
					}
				}
			}
			if clash {
				continue
			}
			x := q.build()
			x.net.Start(0)
			for _, e := range x.net.Emits {
				if strings.HasSuffix(e.Type, "DGRound1Message") {
					ssid = readField(e.Bytes, fieldRef{"ssid", -1})
				}
			}
			if ssid == nil {
				i = 3000 // no id observable: give up
				ssid = make([]byte, 32)
			}
		}
		if len(ssid) < 32 {
			found = q.Key.Seed
		}
	}
	shortSeedMu.Lock()
	shortSeeds[string(kb)] = found
	shortSeedMu.Unlock()
	if found != "" {
		p.Key.Seed = found
	}
	return p
}

func (p protoRun) build() *runCtx {
	sim.IDStyle = p.IDStyle
	// protocols take their curve from the parameters; the process-global default must not matter
	if p.edd() != p.OtherGlobalCurve {
		tss.SetCurve(tss.Edwards())
	} else {
		tss.SetCurve(tss.S256())
	}
	if p.ShortSSID {
		p = p.withShortSSID()
	}
	x := &runCtx{p: p, t: p.Key.T}
	x.cv = getCurve("secp256k1")
	if p.edd() {
		x.cv = getCurve("ed25519")
	}
	switch p.Proto {
	case "ecdsa-keygen", "eddsa-keygen":
		cfg := sim.KeygenCfg{EdDSA: p.edd(), Keys: bigs(p.Keys), T: p.Key.T}
		if !p.edd() && p.ProofMode != "" {
			cfg.NoProofMod, cfg.NoProofFac = p.ProofMode != "mod", p.ProofMode != "fac"
		}
		if !p.edd() {
			x.pre = append([]eckeygen.LocalPreParams{}, preParams()[:len(p.Keys)]...)
			for _, w := range p.WeakPre {
				x.pre[w] = weakPreParams(p.WeakBits)
			}
			for _, g := range p.GenPre {
				x.pre[g] = eckeygen.LocalPreParams{}
			}
			cfg.Pre = x.pre
		}
		x.net, x.ids = sim.NewKeygen(cfg)
		x.secrets = make([][][]byte, len(x.net.Nodes))
		for i := range x.net.Nodes {
			if !p.edd() && x.pre[i].PaillierSK != nil {
				pp := x.pre[i]
				x.secrets[i] = append(secretBytes(pp.Alpha, pp.Beta, pp.P, pp.Q), secretBytes(pp.PaillierSK.P, pp.PaillierSK.Q, pp.PaillierSK.LambdaN, pp.PaillierSK.PhiN)...)
			}
		}
	case "ecdsa-signing":
		data, _, err := p.Key.resolveEC()
		if err != nil {
			panic("harness: " + err.Error())
		}
		var keys []eckeygen.LocalPartySaveData
		for _, i := range p.Members {
			keys = append(keys, deepCopyEC(data[i]))
		}
		x.digest = p.Msg.Big()
		for _, b := range p.BadXi {
			keys[b].Xi = add(keys[b].Xi, 1)
		}
		var kidx []int
		x.net, x.ids, kidx = sim.NewSigning(sim.SignCfg{ECKeys: keys, T: p.Key.T, Msg: x.digest, FullBytesLen: -1})
		x.pubX, x.pubY = data[0].ECDSAPub.X(), data[0].ECDSAPub.Y()
		x.secrets = make([][][]byte, len(x.net.Nodes))
		for i, ki := range kidx {
			x.heldEC = append(x.heldEC, keys[ki])
			x.snapEC = append(x.snapEC, jsonOf(keys[ki]))
			x.secrets[i] = ecSecrets(&keys[ki])
		}
	case "eddsa-signing":
		data, _, _, err := p.Key.resolveED()
		if err != nil {
			panic("harness: " + err.Error())
		}
		var keys []edkeygen.LocalPartySaveData
		for _, i := range p.Members {
			keys = append(keys, deepCopyED(data[i]))
		}
		x.digest = p.Msg.Big()
		for _, b := range p.BadXi {
			keys[b].Xi = add(keys[b].Xi, 1)
		}
		var kidx []int
		x.net, x.ids, kidx = sim.NewSigning(sim.SignCfg{EdDSA: true, EDKeys: keys, T: p.Key.T, Msg: x.digest, FullBytesLen: -1})
		x.pubX, x.pubY = data[0].EDDSAPub.X(), data[0].EDDSAPub.Y()
		x.secrets = make([][][]byte, len(x.net.Nodes))
		for i, ki := range kidx {
			x.heldED = append(x.heldED, keys[ki])
			x.snapED = append(x.snapED, jsonOf(keys[ki]))
			x.secrets[i] = secretBytes(keys[ki].Xi)
		}
	case "ecdsa-resharing":
		data, _, err := p.Key.resolveEC()
		if err != nil {
			panic("harness: " + err.Error())
		}
		var keys []eckeygen.LocalPartySaveData
		for _, i := range p.Members {
			keys = append(keys, deepCopyEC(data[i]))
		}
		x.pre = append([]eckeygen.LocalPreParams{}, preParams()[:len(p.NewKeys)]...)
		for _, w := range p.WeakPre {
			x.pre[w] = weakPreParams(p.WeakBits)
		}
		for _, g := range p.GenPre {
			x.pre[g] = eckeygen.LocalPreParams{}
		}
		for _, b := range p.BadXi {
			keys[b].Xi = add(keys[b].Xi, 1)
		}
		var kidx []int
		x.net, x.ids, x.newIDs, kidx = sim.NewResharing(sim.ReshareCfg{OldEC: keys, OldT: p.Key.T, NewKeys: bigs(p.NewKeys), NewT: p.NewT,
			NewPre: x.pre, NoProofMod: p.noProof("mod"), NoProofFac: p.noProof("fac")})
		x.pubX, x.pubY = data[0].ECDSAPub.X(), data[0].ECDSAPub.Y()
		x.nOld = len(keys)
		x.secrets = make([][][]byte, len(x.net.Nodes))
		for i, ki := range kidx {
			x.heldEC = append(x.heldEC, keys[ki])
			x.snapEC = append(x.snapEC, jsonOf(keys[ki]))
			x.secrets[i] = ecSecrets(&keys[ki])
		}
		for j := range x.newIDs {
			pp := x.pre[j]
			if pp.PaillierSK == nil {
				continue
			}
			x.secrets[x.nOld+j] = append(secretBytes(pp.Alpha, pp.Beta, pp.P, pp.Q), secretBytes(pp.PaillierSK.P, pp.PaillierSK.Q, pp.PaillierSK.LambdaN, pp.PaillierSK.PhiN)...)
		}
	case "eddsa-resharing":
		data, _, _, err := p.Key.resolveED()
		if err != nil {
			panic("harness: " + err.Error())
		}
		var keys []edkeygen.LocalPartySaveData
		for _, i := range p.Members {
			keys = append(keys, deepCopyED(data[i]))
		}
		for _, b := range p.BadXi {
			keys[b].Xi = add(keys[b].Xi, 1)
		}
		var kidx []int
		x.net, x.ids, x.newIDs, kidx = sim.NewResharing(sim.ReshareCfg{EdDSA: true, OldED: keys, OldT: p.Key.T, NewKeys: bigs(p.NewKeys), NewT: p.NewT})
		x.pubX, x.pubY = data[0].EDDSAPub.X(), data[0].EDDSAPub.Y()
		x.nOld = len(keys)
		x.secrets = make([][][]byte, len(x.net.Nodes))
		for i, ki := range kidx {
			x.heldED = append(x.heldED, keys[ki])
			x.snapED = append(x.snapED, jsonOf(keys[ki]))
			x.secrets[i] = secretBytes(keys[ki].Xi)
		}
	default:
		panic("unknown protocol " + p.Proto)
	}
	if len(p.GenPre) > 0 && x.net != nil {
		x.net.CallBudget = 3 * time.Hour // pre-parameter generation happens inside one party call
	}
	return x
}

// newViews returns the key data emitted by the (new) committee as share views, nil where absent.
func (x *runCtx) outputViews(nodes []*sim.Node) ([]*shareView, []*eckeygen.LocalPartySaveData) {
	views := make([]*shareView, len(nodes))
	ecs := make([]*eckeygen.LocalPartySaveData, len(nodes))
	for i, nd := range nodes {
		if len(nd.ECKeys) > 0 {
			v := viewEC(nd.ECKeys[0])
			views[i] = &v
			ecs[i] = nd.ECKeys[0]
		} else if len(nd.EDKeys) > 0 {
			v := viewED(nd.EDKeys[0])
			views[i] = &v
		}
	}
	return views, ecs
}

// judge applies the protocol's result oracle (C01-C04) to a completed honest run.
func (x *runCtx) judge() *runProblem {
	if e := honestRunProblems(x.net); e != nil {
		return e
	}
	p := x.p
	switch p.Proto {
	case "ecdsa-keygen", "eddsa-keygen":
		views, ecs := x.outputViews(x.net.Nodes)
		n := len(views)
		subs := [][]int{seq(n)}
		if c := combos(n, x.t+1); len(c) > 0 {
			subs = append(subs, c[0], c[len(c)-1])
		}
		if err := checkSharing(x.cv, views, x.ids.Keys(), x.t, subs); err != nil {
			return &runProblem{"sharing", err.Error()}
		}
		if !p.edd() {
			if err := checkECAux(ecs); err != nil {
				return &runProblem{"aux", err.Error()}
			}
		}
	case "ecdsa-signing":
		var first []byte
		for _, nd := range x.net.Nodes {
			if err := checkECDSASig(nd.Sigs[0], x.pubX, x.pubY, x.digest, -1); err != nil {
				return &runProblem{"signature", fmt.Sprintf("signer %d: %v", nd.Idx, err)}
			}
			if first == nil {
				first = nd.Sigs[0].Signature
			} else if !bytes.Equal(first, nd.Sigs[0].Signature) {
				return &runProblem{"differ", "signers output different signatures"}
			}
		}
	case "eddsa-signing":
		var first []byte
		for _, nd := range x.net.Nodes {
			if err := checkEdDSASig(nd.Sigs[0], x.pubX, x.pubY, x.digest.Bytes()); err != nil {
				return &runProblem{"signature", fmt.Sprintf("signer %d: %v", nd.Idx, err)}
			}
			if first == nil {
				first = nd.Sigs[0].Signature
			} else if !bytes.Equal(first, nd.Sigs[0].Signature) {
				return &runProblem{"differ", "signers output different signatures"}
			}
		}
	case "ecdsa-resharing", "eddsa-resharing":
		if e := x.judgeNewCommittee(nil); e != nil {
			return e
		}
		// old members (not in the new committee) end with their share erased, and emit no share
		for i := 0; i < x.nOld; i++ {
			var xi *big.Int
			if p.edd() {
				xi = x.heldED[i].Xi
			} else {
				xi = x.heldEC[i].Xi
			}
			if xi == nil || xi.Sign() != 0 {
				return &runProblem{"old-share-kept", fmt.Sprintf("old member %d still holds its share after a completed resharing", i)}
			}
			nd := x.net.Nodes[i]
			if len(nd.ECKeys) > 0 && nd.ECKeys[0].Xi != nil && nd.ECKeys[0].Xi.Sign() != 0 {
				return &runProblem{"old-output-share", fmt.Sprintf("old member %d emitted key data carrying a share", i)}
			}
			if len(nd.EDKeys) > 0 && nd.EDKeys[0].Xi != nil && nd.EDKeys[0].Xi.Sign() != 0 {
				return &runProblem{"old-output-share", fmt.Sprintf("old member %d emitted key data carrying a share", i)}
			}
		}
	}
	return nil
}

// judgeNewCommittee checks the outputs of the new committee members (all, or only `only`) against the
// C03 invariant for (t',n') with the SAME group key.
func (x *runCtx) judgeNewCommittee(only map[int]bool) *runProblem {
	newNodes := x.net.Nodes[x.nOld:]
	views, ecs := x.outputViews(newNodes)
	n := len(views)
	have := 0
	for j := range views {
		if only != nil && !only[x.nOld+j] {
			views[j], ecs[j] = nil, nil
		}
		if views[j] != nil {
			have++
		}
	}
	if have == 0 {
		return nil
	}
	var subs [][]int
	if have == n {
		subs = append(subs, seq(n))
		if c := combos(n, x.p.NewT+1); len(c) > 0 {
			subs = append(subs, c[0], c[len(c)-1])
		}
	}
	if err := checkSharing(x.cv, views, x.newIDs.Keys(), x.p.NewT, subs); err != nil {
		return &runProblem{"new-sharing", err.Error()}
	}
	for j, v := range views {
		if v != nil && (v.Pub.X().Cmp(x.pubX) != 0 || v.Pub.Y().Cmp(x.pubY) != 0) {
			return &runProblem{"key-changed", fmt.Sprintf("new member %d holds a group public key different from the old committee's", j)}
		}
	}
	if !x.p.edd() {
		if err := checkECAux(ecs); err != nil {
			return &runProblem{"new-aux", err.Error()}
		}
	}
	return nil
}

// ------------------------------------------------------------------------------------------------
// generators

func genNewCommittee(t *rapid.T, edd bool, oldKeys []*big.Int, maxN int) ([]H, int) {
	q := ref.Secp.N
	if edd {
		q = ref.Ed.L
	}
	n := rapid.IntRange(2, maxN).Draw(t, "newN")
	nt := rapid.IntRange(1, n-1).Draw(t, "newT")
	for tries := 0; ; tries++ {
		ks, _ := genPartyKeys(t, n, q)
		ok := true
		for _, k := range bigs(ks) {
			for _, o := range oldKeys {
				if k.Cmp(o) == 0 {
					ok = false
				}
			}
		}
		if ok {
			return ks, nt
		}
	}
}

func genProtoRun(t *rapid.T, protos []string) protoRun {
	p := protoRun{Proto: rapid.SampledFrom(protos).Draw(t, "proto")}
	edd := p.edd()
	switch p.Proto {
	case "ecdsa-keygen", "eddsa-keygen":
		maxN := 4
		q := ref.Secp.N
		if edd {
			maxN = 6
			q = ref.Ed.L
		}
		p.Key.N = rapid.IntRange(2, maxN).Draw(t, "n")
		p.Key.T = rapid.IntRange(1, p.Key.N-1).Draw(t, "t")
		p.Keys, p.Key.Pattern = genPartyKeys(t, p.Key.N, q)
		p.Key.Src = "keygen"
	case "ecdsa-signing", "eddsa-signing":
		p.Key = genKeyChoice(t, edd)
		p.Members = genSigners(t, p.Key.N, p.Key.T)
		if edd {
			p.Msg = hx(drawBigBits(t, "msg", rapid.IntRange(1, 600).Draw(t, "msgbits")))
		} else {
			p.Msg = hx(drawBelow(t, "digest", ref.Secp.N))
		}
	default:
		p.Key = genKeyChoice(t, edd)
		p.Members = genSigners(t, p.Key.N, p.Key.T)
		var old []*big.Int
		if edd {
			_, old, _, _ = p.Key.resolveED()
		} else {
			_, old, _ = p.Key.resolveEC()
		}
		maxN := 4
		if edd {
			maxN = 6
		}
		p.NewKeys, p.NewT = genNewCommittee(t, edd, old, maxN)
		p.Proofs = !edd && rapid.Bool().Draw(t, "proofs")
	}
	if p.Proto == "ecdsa-resharing" || p.Proto == "ecdsa-keygen" { // the two proofs can be switched independently
		p.ProofMode = rapid.SampledFrom([]string{"", "", "", "mod", "fac"}).Draw(t, "proofMode")
	}
	p.OtherGlobalCurve = rapid.IntRange(0, 2).Draw(t, "otherGlobalCurve") == 0
	p.IDStyle = rapid.SampledFrom([]string{"", "", "", "blank", "shared"}).Draw(t, "idStyle")
	if p.Key.Src == "dealer" && p.Proto != "ecdsa-keygen" && p.Proto != "eddsa-keygen" && p.Proto != "eddsa-resharing" {
		p.ShortSSID = rapid.IntRange(0, 3).Draw(t, "shortssid") == 0
	}
	return p
}

type eckeygenSave = eckeygen.LocalPartySaveData

// judgeNewCommitteeHonest: as judgeNewCommittee, but the deviator's own auxiliary entries are not compared.
func (x *runCtx) judgeNewCommitteeHonest(only map[int]bool, dev int) *runProblem {
	newNodes := x.net.Nodes[x.nOld:]
	views, ecs := x.outputViews(newNodes)
	for j := range views {
		if !only[x.nOld+j] {
			views[j], ecs[j] = nil, nil
		}
	}
	if err := checkSharing(x.cv, views, x.newIDs.Keys(), x.p.NewT, nil); err != nil {
		return &runProblem{"new-sharing", err.Error()}
	}
	for j, v := range views {
		if v != nil && (v.Pub.X().Cmp(x.pubX) != 0 || v.Pub.Y().Cmp(x.pubY) != 0) {
			return &runProblem{"key-changed", fmt.Sprintf("new member %d holds a group public key different from the old committee's", j)}
		}
	}
	if !x.p.edd() {
		if err := checkECAuxHonest(ecs, dev-x.nOld); err != nil {
			return &runProblem{"new-aux", err.Error()}
		}
	}
	return nil
}

// weakPreParams builds a structurally correct but under-sized pre-parameter set (Paillier modulus and
// ring-Pedersen modulus of `bits` bits), the way prepare.go builds the full-size one.
var (
	weakMu  sync.Mutex
	weakSet = map[int]eckeygen.LocalPreParams{}
)

func weakPreParams(bits int) eckeygen.LocalPreParams {
	weakMu.Lock()
	defer weakMu.Unlock()
	if v, ok := weakSet[bits]; ok {
		return v
	}
	ctx, cancel := context.WithTimeout(context.Background(), 10*time.Minute)
	defer cancel()
	sk, _, err := paillier.GenerateKeyPair(ctx, rand.Reader, bits, 4)
	if err != nil {
		panic("harness: " + err.Error())
	}
	sgps, err := common.GetRandomSafePrimesConcurrent(ctx, bits/2, 2, 4, rand.Reader)
	if err != nil {
		panic("harness: " + err.Error())
	}
	P, Q := sgps[0].SafePrime(), sgps[1].SafePrime()
	p, q := sgps[0].Prime(), sgps[1].Prime()
	NT := mul(P, Q)
	pq := mul(p, q)
	f1 := common.GetRandomPositiveRelativelyPrimeInt(rand.Reader, NT)
	var alpha, beta *big.Int
	for {
		alpha = common.GetRandomPositiveRelativelyPrimeInt(rand.Reader, NT)
		beta = new(big.Int).ModInverse(alpha, pq)
		if beta != nil {
			break
		}
	}
	h1 := mulMod(f1, f1, NT)
	h2 := expMod(h1, alpha, NT)
	v := eckeygen.LocalPreParams{PaillierSK: sk, NTildei: NT, H1i: h1, H2i: h2, Alpha: alpha, Beta: beta, P: p, Q: q}
	weakSet[bits] = v
	return v
}

package props

// C08 — Rounds, routing and channel discipline follow the protocol; WaitingFor is exact.
// The oracle is the round-engine reference model in monitor_test.go, evaluated after every step.

import (
	"fmt"
	"testing"

	"pgregory.net/rapid"

	"verif/harness/ev"
	"verif/harness/sim"
)

func TestC08RandomEdDSA(t *testing.T) {
	r := ev.New(t, "C08")
	ev.Drive(t, r, genC07(edProtos, schedAll), func(c c07Case) ev.Outcome { return c08Outcome(runScheduledMon("C08", c, nil)) })
}

func TestC08RandomECDSA(t *testing.T) {
	r := ev.New(t, "C08")
	ev.Drive(t, r, genC07([]string{"ecdsa-keygen", "ecdsa-signing", "ecdsa-resharing"}, schedAll), func(c c07Case) ev.Outcome { return c08Outcome(runScheduledMon("C08", c, nil)) })
}

func TestC08ExhaustiveInbox(t *testing.T) { runEnum(t, "C08") }

// runScheduledMon is runScheduled that also reports the monitor's WaitingFor statistics in the label.
func runScheduledMon(prop string, c c07Case, mut func(x *runCtx, m *monitor)) (ev.Outcome, *monitor) {
	var mon *monitor
	out := runScheduled(prop, c, func(x *runCtx, m *monitor) {
		mon = m
		if mut != nil {
			mut(x, m)
		}
	})
	return out, mon
}

// c08Outcome re-labels an outcome by what the monitor measured: a run is non-trivial for C08 when at
// some step the awaited set was a proper non-empty subset of the peers (or a flag-flipped delivery happened).
func c08Outcome(out ev.Outcome, mon *monitor) ev.Outcome {
	if mon == nil {
		return out
	}
	out.Nontrivial = mon.wfPartial > 0
	keys := ""
	n := 0
	for k := range mon.wfKeys {
		if n < 3 {
			keys += " " + k
		}
		n++
	}
	out.Label = fmt.Sprintf("%s wf-partial-shapes=%d", out.Label, len(mon.wfKeys))
	if out.Sample == nil {
		out.Sample = map[string]interface{}{"waitingfor_checks": mon.wfSteps, "partial_awaited_steps": mon.wfPartial, "shapes": keys}
	}
	return out
}

type c08Flip struct {
	Run     protoRun
	Sched   SchedSpec
	FlipPct int
	Salt    int
	After   bool `json:",omitempty"` // the flag-flipped copy arrives AFTER the proper one (else before it)
	// Unrestricted (reproducer of known finding F20 only): the late flipped copy is sent even when the proper copy
	// has not been accepted yet
	Unrestricted bool `json:",omitempty"`
}

func genC08Flip(protos []string) func(t *rapid.T) c08Flip {
	return func(t *rapid.T) c08Flip {
		c := c08Flip{Run: genProtoRun(t, protos)}
		n := len(c.Run.Members) + len(c.Run.NewKeys)
		if n == 0 {
			n = c.Run.Key.N
		}
		c.Sched = genSched(t, n, schedNoPre)
		c.FlipPct = rapid.SampledFrom([]int{10, 30, 60, 100}).Draw(t, "flipPct")
		c.Salt = rapid.IntRange(0, 1000).Draw(t, "salt")
		c.After = rapid.Bool().Draw(t, "flipAfter")
		return c
	}
}

// runC08Flip: a drawn subset of deliveries is first handed over on the WRONG channel kind (broadcast
// flag flipped); the correctly flagged copy is only released after that. A wrong-channel delivery must
// never satisfy a requirement: the monitor (which does not count it) checks WaitingFor and the round
// after every step.
func runC08Flip(c c08Flip) ev.Outcome {
	flips := 0
	out, mon := runScheduledMon("C08", c07Case{Run: c.Run, Sched: c.Sched}, func(x *runCtx, m *monitor) {
		net := x.net
		held := map[*sim.Delivery]*sim.Delivery{}
		after := map[*sim.Delivery]bool{}
		net.OnCreate = func(d *sim.Delivery) bool {
			if d.Tag != "" || (d.ID*7919+c.Salt)%100 >= c.FlipPct {
				return true
			}
			if c.After { // the proper copy first; its flag-flipped duplicate follows once it has been delivered
				after[d] = true
				return true
			}
			f := &sim.Delivery{E: d.E, To: d.To, From: d.From, Bytes: d.Bytes, Bcast: !d.Bcast, Tag: "flip"}
			held[f] = d
			net.Inject(f)
			flips++
			return false // the correct copy is released once the flipped one was delivered
		}
		prev := net.AfterStep
		net.AfterStep = func(s sim.Step) {
			if s.D != nil && after[s.D] && s.Kind == sim.StepDeliver {
				delete(after, s.D)
				// only when the proper copy has just been ACCEPTED (it belongs to the recipient's current round and the
				// round no longer waits for its sender): a wrong-channel copy that arrives while the proper one is
				// still waiting to be accepted replaces it in the store (observation O3 in DESIGN.md)
				cur := m.lastRound[s.Node]
				if cur == 0 {
					cur = 1
				}
				accepted := net.Nodes[s.Node].Started && m.needRound(s.Node, s.D.E.Type) == cur
				for _, id := range net.Nodes[s.Node].P.WaitingFor() {
					if id.KeyInt().Cmp(s.D.From.KeyInt()) == 0 {
						accepted = false // the round still waits for something from this sender (a second message type)
					}
				}
				if accepted || c.Unrestricted {
					net.Inject(&sim.Delivery{E: s.D.E, To: s.D.To, From: s.D.From, Bytes: s.D.Bytes, Bcast: !s.D.Bcast, Tag: "flip"})
					flips++
				}
			}
			if s.D != nil && s.D.Tag == "flip" {
				if orig, ok := held[s.D]; ok {
					delete(held, s.D)
					net.Pending = append(net.Pending, orig)
				}
			}
			if prev != nil {
				prev(s)
			}
		}
	})
	out = c08Outcome(out, mon)
	out.Label = fmt.Sprintf("flagflip %s sched=%s flips>0=%v flipped-copy-after=%v", c.Run, c.Sched.Class(), flips > 0, c.After)
	out.Nontrivial = flips > 0
	if c.Unrestricted && out.Err != nil {
		out.Sig = "wrong-channel-duplicate-replaces-unaccepted-message:" + c.Run.Proto
	}
	return out
}

// TestC08KnownFindingF20: reproducer of the open known finding F20 (a wrong-channel duplicate that arrives before
// the proper copy has been accepted replaces it; WaitingFor then names a peer whose message was delivered and the
// run never completes). Everywhere else the flag-flip generator sends the late copy only after acceptance.
func TestC08KnownFindingF20(t *testing.T) {
	r := ev.New(t, "C08")
	cases := []c08Flip{{Run: fixedRun("eddsa-keygen", 3, 1, 0), Sched: SchedSpec{Kind: "lifo"}, FlipPct: 100, After: true, Unrestricted: true}}
	ev.Each(t, r, cases, runC08Flip)
}

func TestC08FlagFlipEdDSA(t *testing.T) {
	r := ev.New(t, "C08")
	ev.Drive(t, r, genC08Flip(edProtos), runC08Flip)
}

func TestC08FlagFlipECDSA(t *testing.T) {
	r := ev.New(t, "C08")
	ev.Drive(t, r, genC08Flip([]string{"ecdsa-keygen", "ecdsa-signing", "ecdsa-resharing"}), runC08Flip)
}

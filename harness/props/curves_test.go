package props

import (
	"crypto/elliptic"
	"math/big"

	"github.com/bnb-chain/tss-lib/v2/crypto"
	"github.com/bnb-chain/tss-lib/v2/tss"

	"verif/harness/ref"
)

// curveRef pairs a library curve with its reference implementation.
type curveRef struct {
	Name string
	EC   elliptic.Curve
	Q    *big.Int // group order
	P    *big.Int // field prime
}

func getCurve(name string) curveRef {
	switch name {
	case "secp256k1":
		return curveRef{Name: name, EC: tss.S256(), Q: ref.Secp.N, P: ref.Secp.P}
	case "ed25519":
		return curveRef{Name: name, EC: tss.Edwards(), Q: ref.Ed.L, P: ref.Ed.P}
	}
	panic("unknown curve " + name)
}

// refBaseMul returns k*G computed by the reference implementation; ok=false if the result is the
// point at infinity (secp256k1 only), which the library documents as unrepresentable.
func (c curveRef) refBaseMul(k *big.Int) (x, y *big.Int, ok bool) {
	if c.Name == "secp256k1" {
		p := ref.Secp.BaseMul(k)
		if p.Inf {
			return nil, nil, false
		}
		return p.X, p.Y, true
	}
	p := ref.Ed.BaseMul(k)
	return p.X, p.Y, true
}

func (c curveRef) refMul(k *big.Int, x, y *big.Int) (rx, ry *big.Int, ok bool) {
	if c.Name == "secp256k1" {
		p := ref.Secp.Mul(k, ref.Point{X: x, Y: y})
		if p.Inf {
			return nil, nil, false
		}
		return p.X, p.Y, true
	}
	p := ref.Ed.Mul(k, ref.Point{X: x, Y: y})
	return p.X, p.Y, true
}

func (c curveRef) refAdd(x1, y1, x2, y2 *big.Int) (rx, ry *big.Int, ok bool) {
	if c.Name == "secp256k1" {
		p := ref.Secp.Add(ref.Point{X: x1, Y: y1}, ref.Point{X: x2, Y: y2})
		if p.Inf {
			return nil, nil, false
		}
		return p.X, p.Y, true
	}
	p := ref.Ed.Add(ref.Point{X: x1, Y: y1}, ref.Point{X: x2, Y: y2})
	return p.X, p.Y, true
}

func (c curveRef) refOnCurve(x, y *big.Int) bool {
	if c.Name == "secp256k1" {
		return ref.Secp.OnCurve(x, y)
	}
	return ref.Ed.OnCurve(x, y)
}

func ptEq(p *crypto.ECPoint, x, y *big.Int) bool {
	return p != nil && p.X().Cmp(x) == 0 && p.Y().Cmp(y) == 0
}

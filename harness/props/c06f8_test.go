package props

// Reproducer of the open known finding F8 (C06): paillier.Proof.Verify / GenerateXs does not return for a
// modulus whose bit length is far from a multiple of 256. Everywhere else such moduli are excluded by
// construction (the generated checks would not terminate); here the one listed call is made under a watchdog,
// in a unit of its own (the spinning goroutine dies with the process), so that every run reports the finding
// as long as it exists -- and stays silent once the library is repaired.

import (
	"fmt"
	"math/big"
	"testing"
	"time"

	"github.com/bnb-chain/tss-lib/v2/crypto"
	"github.com/bnb-chain/tss-lib/v2/crypto/paillier"
	"github.com/bnb-chain/tss-lib/v2/tss"

	"verif/harness/ev"
)

type c06F8 struct{ Bits int }

func TestC06KnownFindingF8(t *testing.T) {
	r := ev.New(t, "C06")
	ev.Each(t, r, []c06F8{{Bits: 2000}}, func(c c06F8) ev.Outcome {
		out := ev.Outcome{Label: fmt.Sprintf("paillier.Proof.Verify with a %d-bit modulus (known finding F8)", c.Bits), Nontrivial: true}
		N := new(big.Int).Lsh(big.NewInt(1), uint(c.Bits-1))
		N.Add(N, big.NewInt(12345)) // odd, c.Bits bits
		N.SetBit(N, 0, 1)
		pub := crypto.ScalarBaseMult(tss.S256(), big.NewInt(7))
		var pf paillier.Proof
		for i := range pf {
			pf[i] = big.NewInt(int64(i + 2))
		}
		okT, p := withDeadline(20*time.Second, func() { _, _ = pf.Verify(N, big.NewInt(5), pub) })
		if p != nil {
			out.Err, out.Sig = fmt.Errorf("paillier.Proof.Verify panicked on a %d-bit modulus: %v", c.Bits, p), "panic:paillier.Proof.Verify"
			return out
		}
		if !okT {
			out.Err = fmt.Errorf("paillier.Proof.Verify did not return within 20 s for a %d-bit modulus (a legitimate call takes milliseconds)", c.Bits)
			out.Sig = "hang:paillier.Proof.Verify:bit-length-not-a-multiple-of-256"
		}
		return out
	})
}

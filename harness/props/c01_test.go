package props

// C01 — Threshold ECDSA signing yields one valid, canonical signature.

import (
	"bytes"
	"crypto/rand"
	"fmt"
	"io"
	"math/big"
	"testing"

	"github.com/bnb-chain/tss-lib/v2/common"
	"github.com/bnb-chain/tss-lib/v2/crypto"
	eckeygen "github.com/bnb-chain/tss-lib/v2/ecdsa/keygen"
	"github.com/bnb-chain/tss-lib/v2/tss"
	"pgregory.net/rapid"

	"verif/harness/ev"
	"verif/harness/ref"
	"verif/harness/sim"
)

func (k keyChoice) resolveEC() ([]eckeygen.LocalPartySaveData, []*big.Int, error) {
	switch k.Src {
	case "mem":
		d, ks := resolveMemEC(k.Seed)
		if d == nil {
			return nil, nil, fmt.Errorf("in-memory key %s not found", k.Seed)
		}
		return d, ks, nil
	case "dealer":
		d := dealKeys(false, k.N, k.T, k.Pattern, k.Seed)
		return d.EC, d.Keys, nil
	default:
		p, err := poolEC(k.N, k.T, k.Pattern)
		if err != nil {
			return nil, nil, err
		}
		return p.Data, p.Keys, nil
	}
}

// privKeyOf interpolates the private key from all shares (generation-side knowledge, used for steering only).
func privKeyOf(data []eckeygen.LocalPartySaveData, keys []*big.Int, t int) *big.Int {
	xs, ys := make([]*big.Int, t+1), make([]*big.Int, t+1)
	for i := 0; i <= t; i++ {
		xs[i] = new(big.Int).Mod(keys[i], ref.Secp.N)
		ys[i] = new(big.Int).Mod(data[i].Xi, ref.Secp.N)
	}
	v, err := ref.Interpolate(xs, ys, big.NewInt(0), ref.Secp.N)
	if err != nil {
		panic("harness: " + err.Error())
	}
	return v
}

// ecSigningSSID reproduces the session id of an ECDSA signing session (generation-side only: it lets the
// generator reach keys and signer sets whose session id -- a hash passed through big.Int -- is shorter
// than 32 bytes). If the reproduction ever drifts from the library the class is simply no longer reached.
func ecSigningSSID(data []eckeygen.LocalPartySaveData, signers []int) []byte {
	var shareIDs []*big.Int
	for _, i := range signers {
		shareIDs = append(shareIDs, data[i].ShareID)
	}
	ids := sim.MakeIDs("s", shareIDs)
	sub := eckeygen.BuildLocalSaveDataSubset(data[signers[0]], ids)
	p := tss.S256().Params()
	list := []*big.Int{p.P, p.N, p.B, p.Gx, p.Gy}
	list = append(list, ids.Keys()...)
	flat, _ := crypto.FlattenECPoints(sub.BigXj)
	list = append(list, flat...)
	list = append(list, sub.NTildej...)
	list = append(list, sub.H1j...)
	list = append(list, sub.H2j...)
	list = append(list, big.NewInt(1), big.NewInt(0))
	return common.SHA512_256i(list...).Bytes()
}

// shortSSIDSeed searches dealer seeds derived from k.Seed for a key whose session id for these signers has
// a leading zero byte (about one key in 256).
func shortSSIDSeed(k keyChoice, ssid func(seed string) []byte) (string, bool) {
	for i := 0; i < 4000; i++ {
		sd := fmt.Sprintf("%s~%d", k.Seed, i)
		if len(ssid(sd)) < 32 {
			return sd, true
		}
	}
	return k.Seed, false
}

type c01Case struct {
	IDStyle     string // "", "blank", "shared": free-form id strings of the parties
	Poll        bool   `json:",omitempty"` // the application polls WaitingFor() on every party after every step
	OtherGlobal bool   // the process-global curve is set to edwards25519 although the parameters carry secp256k1
	ShortSSID   bool   // dealer keys only: search for a key whose session id has a leading zero byte
	Key         keyChoice
	Signers     []int
	Digest      H
	DigestC     string
	FBL         int    // -1 absent, 0, or a length in [len(m),32]
	Steer       string // "", "r-lead0", "s-lead0", "s-high", "s-half", "s-half+1", "r+s-lead0"
	SteerSd     int
	Sched       SchedSpec
	Refusal     bool
}

var c01DigestClasses = []string{"0", "1", "q-1", "pow2", "lt2^248", "lt2^128", "rand", "rand"}

func genC01(t *rapid.T) c01Case {
	c := c01Case{Key: genKeyChoice(t, false)}
	c.Signers = genSigners(t, c.Key.N, c.Key.T)
	q := ref.Secp.N
	c.Refusal = rapid.IntRange(0, 9).Draw(t, "refusal") == 0
	if c.Refusal {
		c.DigestC = rapid.SampledFrom([]string{"q", "q+1", "2^256-1", "2^300", "p-1", "q+rand"}).Draw(t, "rdigest")
		switch c.DigestC {
		case "q":
			c.Digest = hx(q)
		case "q+1":
			c.Digest = hx(add(q, 1))
		case "2^256-1":
			c.Digest = hx(add(new(big.Int).Lsh(one, 256), -1))
		case "2^300":
			c.Digest = hx(new(big.Int).Lsh(one, 300))
		case "p-1":
			c.Digest = hx(add(ref.Secp.P, -1))
		case "q+rand":
			c.Digest = hx(new(big.Int).Add(q, drawBigBits(t, "d", 120)))
		}
		c.FBL = -1
		c.Sched = SchedSpec{Kind: "fifo"}
		return c
	}
	c.Steer = rapid.SampledFrom([]string{"", "", "", "r-lead0", "s-lead0", "s-high", "s-half", "s-half+1", "r+s-lead0"}).Draw(t, "steer")
	c.SteerSd = rapid.IntRange(0, 1<<30).Draw(t, "steerseed")
	c.DigestC = rapid.SampledFrom(c01DigestClasses).Draw(t, "dclass")
	var d *big.Int
	switch c.DigestC {
	case "0":
		d = big.NewInt(0)
	case "1":
		d = big.NewInt(1)
	case "q-1":
		d = add(q, -1)
	case "pow2":
		d = new(big.Int).Lsh(one, uint(rapid.IntRange(1, 255).Draw(t, "k")))
	case "lt2^248":
		d = drawBigBits(t, "d", rapid.IntRange(200, 248).Draw(t, "bits"))
	case "lt2^128":
		d = drawBigBits(t, "d", rapid.IntRange(1, 128).Draw(t, "bits"))
	default:
		d = drawBelow(t, "d", q)
	}
	if c.Steer != "" && c.Steer != "r-lead0" {
		c.DigestC = "steered" // the digest is computed at run time from the steering target
	}
	c.Digest = hx(d)
	switch rapid.SampledFrom([]string{"absent", "absent", "0", "32", "between"}).Draw(t, "fbl") {
	case "absent":
		c.FBL = -1
	case "0":
		c.FBL = 0
	case "32":
		c.FBL = 32
	case "between":
		c.FBL = -2 // resolved at run time to a value in [len(m),32]
	}
	c.Sched = genSched(t, len(c.Signers), schedNoDup)
	c.ShortSSID = c.Key.Src == "dealer" && rapid.IntRange(0, 3).Draw(t, "shortssid") == 0
	c.OtherGlobal = rapid.IntRange(0, 2).Draw(t, "otherGlobal") == 0
	c.IDStyle = rapid.SampledFrom([]string{"", "", "", "blank", "shared"}).Draw(t, "idStyle")
	c.Poll = rapid.Bool().Draw(t, "poll")
	return c
}

// steering: choose the signers' k_i so that R.x has a leading zero byte, and/or choose the digest so
// that s hits a target class. Uses only generation-side knowledge; the oracle never looks at it.
type steerPlan struct {
	ks     []*big.Int
	digest *big.Int
}

func planSteer(c c01Case, nSigners int, priv *big.Int, digest *big.Int) steerPlan {
	q := ref.Secp.N
	d := newDRBG(fmt.Sprintf("steer/%d", c.SteerSd))
	rnd := func() *big.Int {
		b := make([]byte, 40)
		d.Read(b)
		v := new(big.Int).SetBytes(b)
		v.Mod(v, add(q, -1))
		return v.Add(v, one)
	}
	ktot := rnd()
	curve := tss.S256()
	rOf := func(k *big.Int) (*big.Int, *big.Int) {
		kinv := new(big.Int).ModInverse(k, q)
		return curve.ScalarBaseMult(kinv.Bytes())
	}
	if c.Steer == "r-lead0" || c.Steer == "r+s-lead0" {
		for i := 0; i < 100000; i++ {
			rx, _ := rOf(ktot)
			if rx.BitLen() <= 248 {
				break
			}
			ktot = add(ktot, 1)
		}
	}
	plan := steerPlan{digest: digest}
	sum := new(big.Int)
	for i := 0; i < nSigners-1; i++ {
		k := rnd()
		plan.ks = append(plan.ks, k)
		sum.Add(sum, k)
	}
	last := new(big.Int).Sub(ktot, sum)
	last.Mod(last, q)
	if last.Sign() == 0 { // astronomically unlikely
		last = big.NewInt(1)
	}
	plan.ks = append(plan.ks, last)
	if c.Steer == "r-lead0" {
		return plan
	}
	// s = k (m + r x)  =>  m = s k^-1 - r x
	rx, _ := rOf(ktot)
	r := new(big.Int).Mod(rx, q)
	half := new(big.Int).Rsh(q, 1)
	var target *big.Int
	small := rnd()
	small.Rsh(small, uint(16+c.SteerSd%100)) // leading zero bytes
	if small.Sign() == 0 {
		small = big.NewInt(1)
	}
	switch c.Steer {
	case "s-lead0", "r+s-lead0":
		target = small
	case "s-high": // in the upper half: must be normalised to q - s (which then has leading zeros)
		target = new(big.Int).Sub(q, small)
	case "s-half":
		target = half
	case "s-half+1":
		target = add(half, 1)
	}
	kinv := new(big.Int).ModInverse(ktot, q)
	m := new(big.Int).Mul(target, kinv)
	m.Sub(m, new(big.Int).Mul(r, priv))
	m.Mod(m, q)
	plan.digest = m
	return plan
}

func runC01(c c01Case) (out ev.Outcome) {
	out = ev.Outcome{}
	fail := func(sig, f string, a ...interface{}) ev.Outcome {
		out.Err, out.Sig = fmt.Errorf(f, a...), sig
		return out
	}
	setGlobalCurve(false, c.OtherGlobal)
	sim.IDStyle = c.IDStyle
	if c.IDStyle != "" {
		defer func() { out.Label += " id-strings=" + c.IDStyle }()
	}
	short := false
	if c.ShortSSID && !c.Refusal && c.Key.Src == "dealer" {
		c.Key.Seed, short = shortSSIDSeed(c.Key, func(sd string) []byte {
			return ecSigningSSID(dealKeys(false, c.Key.N, c.Key.T, c.Key.Pattern, sd).EC, c.Signers)
		})
	}
	data, partyKeys, err := c.Key.resolveEC()
	if err != nil {
		panic("harness: " + err.Error())
	}
	var keys []eckeygen.LocalPartySaveData
	for _, i := range c.Signers {
		keys = append(keys, data[i])
	}
	digest := c.Digest.Big()
	pub := data[0].ECDSAPub
	if c.Refusal {
		out.Label = fmt.Sprintf("ecdsa-sign refusal digest=%s |S|=%d", c.DigestC, len(c.Signers))
		out.Nontrivial = true
		net, _, _ := sim.NewSigning(sim.SignCfg{ECKeys: keys, T: c.Key.T, Msg: digest, FullBytesLen: -1})
		net.Run(sim.FIFO{}, 1000)
		for _, nd := range net.Nodes {
			if nd.StartErr == nil {
				return fail("refusal-missing", "signer %d started with digest %s (not below the curve order)", nd.Idx, c.DigestC)
			}
			if nd.Finished() {
				return fail("refusal-output", "signer %d produced a signature for an out-of-range digest", nd.Idx)
			}
		}
		if len(net.Emits) != 0 {
			return fail("refusal-emits", "%d messages were sent before/although Start was refused", len(net.Emits))
		}
		return out
	}
	var readers []io.Reader
	if c.Steer != "" {
		priv := privKeyOf(data, partyKeys, c.Key.T)
		plan := planSteer(c, len(keys), priv, digest)
		digest = plan.digest
		for _, k := range plan.ks {
			readers = append(readers, &prefixReader{prefix: k.FillBytes(make([]byte, 32)), rest: rand.Reader})
		}
	}
	fbl := c.FBL
	if fbl == -2 {
		l := len(digest.Bytes())
		fbl = l + (c.SteerSd % (33 - l))
		if fbl == 0 {
			fbl = 32
		}
	}
	cfg := sim.SignCfg{ECKeys: keys, T: c.Key.T, Msg: digest, FullBytesLen: fbl}
	if readers != nil {
		cfg.Rand = func(i int) io.Reader { return readers[i] }
	}
	net, _, _ := sim.NewSigning(cfg)
	c.Sched.apply(net)
	if c.Poll {
		pollWaitingFor(net)
		defer func() { out.Label += " polled" }()
	}
	net.Run(c.Sched.Make(), 50000)
	fblC := "absent"
	if fbl >= 0 {
		fblC = fmt.Sprintf("%d", fbl)
		if fbl > 0 && fbl < 32 {
			fblC = "between"
		}
	}
	out.Label = fmt.Sprintf("ecdsa-sign %s |S|=%d digest=%s fbl=%s sched=%s", c.Key, len(c.Signers), c.DigestC, fblC, c.Sched.Class())
	out.Nontrivial = !(c.Key.Src == "fixture" && len(c.Signers) == 3 && c.DigestC == "lt2^128" && fbl < 0 && c.Sched.Kind == "fifo")
	if e := honestRunProblems(net); e != nil {
		return fail(e.sig, "%s (digest %x)", e.msg, digest)
	}
	var first []byte
	for _, nd := range net.Nodes {
		s := nd.Sigs[0]
		if e := checkECDSASig(s, pub.X(), pub.Y(), digest, fbl); e != nil {
			return fail("signature", "signer %d: %v (digest %x R %x S %x)", nd.Idx, e, digest, s.R, s.S)
		}
		if first == nil {
			first = append(append(append([]byte{}, s.Signature...), s.SignatureRecovery...), s.M...)
		} else if !bytes.Equal(first, append(append(append([]byte{}, s.Signature...), s.SignatureRecovery...), s.M...)) {
			return fail("differ", "signers output different signatures")
		}
	}
	// observed output classes (measured, not intended)
	s0 := net.Nodes[0].Sigs[0]
	obs := ""
	if s0.R[0] == 0 {
		obs += " R-lead0"
	}
	if s0.S[0] == 0 {
		obs += " S-lead0"
	}
	if new(big.Int).SetBytes(s0.S).Cmp(new(big.Int).Rsh(ref.Secp.N, 1)) == 0 {
		obs += " S=half"
	}
	if obs != "" {
		out.Label += " out:" + obs
	}
	if c.Steer != "" {
		out.Label += " steer=" + c.Steer
	}
	if short {
		out.Label += " ssid<32B"
	}
	if c.OtherGlobal {
		out.Label += " global-curve=other"
	}
	return out
}

func TestC01ECDSASign(t *testing.T) {
	r := ev.New(t, "C01")
	ev.Drive(t, r, genC01, runC01)
}

// TestC01FixtureSubsets: every subset of size >= 3 of the vendored 5-party key (16 subsets), digest with a leading zero byte.
func TestC01FixtureSubsets(t *testing.T) {
	r := ev.New(t, "C01")
	var cases []c01Case
	shard, shards := ev.Shard()
	k := 0
	for size := 3; size <= 5; size++ {
		for _, sub := range combos(5, size) {
			k++
			if k%shards != shard {
				continue
			}
			// reversed hand-in order
			rev := make([]int, len(sub))
			for i := range sub {
				rev[i] = sub[len(sub)-1-i]
			}
			cases = append(cases, c01Case{Key: keyChoice{Src: "fixture", N: 5, T: 2, Pattern: "fixture"}, Signers: rev,
				Digest: hx(new(big.Int).Lsh(big.NewInt(int64(1000+k)), 200)), DigestC: "lt2^248", FBL: []int{-1, 32, 0}[k%3],
				Sched: SchedSpec{Kind: []string{"fifo", "lifo"}[k%2]}})
		}
	}
	ev.Each(t, r, cases, runC01)
	r.SetExhaustive(true)
}

package props

// C12 — Proofs are bound to their session, statement, prover and are not malleable.

import (
	"crypto/rand"
	"fmt"
	"math/big"
	"sync"
	"testing"

	"github.com/bnb-chain/tss-lib/v2/crypto"
	"github.com/bnb-chain/tss-lib/v2/crypto/dlnproof"
	"github.com/bnb-chain/tss-lib/v2/crypto/facproof"
	"github.com/bnb-chain/tss-lib/v2/crypto/modproof"
	"github.com/bnb-chain/tss-lib/v2/crypto/mta"
	"github.com/bnb-chain/tss-lib/v2/crypto/paillier"
	"github.com/bnb-chain/tss-lib/v2/crypto/schnorr"
	"github.com/bnb-chain/tss-lib/v2/tss"
	"pgregory.net/rapid"

	"verif/harness/ev"
)

// proofInst is an accepted proof flattened into a vector; verify re-assembles and calls the library.
type proofInst struct {
	sys     string
	sess    []byte
	hasSess bool
	vec     []*big.Int
	names   []string
	stmt    map[int]bool // positions that belong to the statement (the rest are proof components)
	points  [][2]int     // (x,y) index pairs
	cv      curveRef
	verify  func(sess []byte, v []*big.Int) bool
	shifts  map[string]func(d *big.Int, v []*big.Int) []*big.Int
	groups  map[string][]int // repeated parts: name -> positions (for swap-with-neighbour)
}

func pt(cv curveRef, x, y *big.Int) *crypto.ECPoint {
	p, err := crypto.NewECPoint(cv.EC, x, y)
	if err != nil {
		return nil
	}
	return p
}

func vecCopy(v []*big.Int) []*big.Int {
	out := make([]*big.Int, len(v))
	for i := range v {
		out[i] = new(big.Int).Set(v[i])
	}
	return out
}

var (
	c12Mu    sync.Mutex
	c12Cache = map[string]*proofInst{}
)

func c12Build(sys, curve string, set, vset int, sess []byte) *proofInst {
	key := fmt.Sprintf("%s/%s/%d/%d/%x", sys, curve, set, vset, sess)
	c12Mu.Lock()
	defer c12Mu.Unlock()
	if p, ok := c12Cache[key]; ok {
		return p
	}
	cv := getCurve(curve)
	pp, vp := preParams()[set], preParams()[vset]
	pk := &pp.PaillierSK.PublicKey
	in := &proofInst{sys: sys, sess: sess, cv: cv, stmt: map[int]bool{}, shifts: map[string]func(*big.Int, []*big.Int) []*big.Int{}, groups: map[string][]int{}}
	q := cv.Q
	switch sys {
	case "schnorr":
		x := add(randBelow(add(q, -2)), 1)
		X := crypto.ScalarBaseMult(cv.EC, x)
		pf, _ := schnorr.NewZKProof(sess, x, X, rand.Reader)
		in.hasSess = true
		in.vec = []*big.Int{X.X(), X.Y(), pf.Alpha.X(), pf.Alpha.Y(), pf.T}
		in.names = []string{"X.x", "X.y", "alpha.x", "alpha.y", "t"}
		in.stmt[0], in.stmt[1] = true, true
		in.points = [][2]int{{0, 1}, {2, 3}}
		in.verify = func(s []byte, v []*big.Int) bool {
			X, a := pt(cv, v[0], v[1]), pt(cv, v[2], v[3])
			if X == nil || a == nil {
				return false
			}
			return (&schnorr.ZKProof{Alpha: a, T: v[4]}).Verify(s, X)
		}
		in.shifts["alpha+dG,t+d"] = func(d *big.Int, v []*big.Int) []*big.Int {
			a := pt(cv, v[2], v[3])
			a2, err := a.Add(crypto.ScalarBaseMult(cv.EC, d))
			if err != nil {
				return nil
			}
			o := vecCopy(v)
			o[2], o[3] = a2.X(), a2.Y()
			o[4] = new(big.Int).Mod(new(big.Int).Add(v[4], d), q)
			return o
		}
	case "schnorr-v":
		s, l := add(randBelow(add(q, -2)), 1), add(randBelow(add(q, -2)), 1)
		R := crypto.ScalarBaseMult(cv.EC, add(randBelow(add(q, -2)), 1))
		V, err := R.ScalarMult(s).Add(crypto.ScalarBaseMult(cv.EC, l))
		if err != nil {
			return nil
		}
		pf, _ := schnorr.NewZKVProof(sess, V, R, s, l, rand.Reader)
		in.hasSess = true
		in.vec = []*big.Int{V.X(), V.Y(), R.X(), R.Y(), pf.Alpha.X(), pf.Alpha.Y(), pf.T, pf.U}
		in.names = []string{"V.x", "V.y", "R.x", "R.y", "alpha.x", "alpha.y", "t", "u"}
		in.stmt[0], in.stmt[1], in.stmt[2], in.stmt[3] = true, true, true, true
		in.points = [][2]int{{0, 1}, {2, 3}, {4, 5}}
		in.verify = func(ss []byte, v []*big.Int) bool {
			V, R, a := pt(cv, v[0], v[1]), pt(cv, v[2], v[3]), pt(cv, v[4], v[5])
			if V == nil || R == nil || a == nil {
				return false
			}
			return (&schnorr.ZKVProof{Alpha: a, T: v[6], U: v[7]}).Verify(ss, V, R)
		}
		in.shifts["alpha+dR+d'G,t+d,u+d'"] = func(d *big.Int, v []*big.Int) []*big.Int {
			a, R := pt(cv, v[4], v[5]), pt(cv, v[2], v[3])
			d2 := add(d, 12345)
			a2, err := a.Add(R.ScalarMult(d))
			if err != nil {
				return nil
			}
			a2, err = a2.Add(crypto.ScalarBaseMult(cv.EC, d2))
			if err != nil {
				return nil
			}
			o := vecCopy(v)
			o[4], o[5] = a2.X(), a2.Y()
			o[6] = new(big.Int).Mod(new(big.Int).Add(v[6], d), q)
			o[7] = new(big.Int).Mod(new(big.Int).Add(v[7], d2), q)
			return o
		}
	case "dln":
		pf := dlnproof.NewDLNProof(pp.H1i, pp.H2i, pp.Alpha, pp.P, pp.Q, pp.NTildei, rand.Reader)
		in.vec = []*big.Int{pp.H1i, pp.H2i, pp.NTildei}
		in.names = []string{"h1", "h2", "N"}
		in.stmt[0], in.stmt[1], in.stmt[2] = true, true, true
		for i := 0; i < dlnproof.Iterations; i++ {
			in.groups["alpha"] = append(in.groups["alpha"], len(in.vec))
			in.vec = append(in.vec, pf.Alpha[i])
			in.names = append(in.names, fmt.Sprintf("alpha[%d]", i))
		}
		for i := 0; i < dlnproof.Iterations; i++ {
			in.groups["t"] = append(in.groups["t"], len(in.vec))
			in.vec = append(in.vec, pf.T[i])
			in.names = append(in.names, fmt.Sprintf("t[%d]", i))
		}
		in.verify = func(_ []byte, v []*big.Int) bool {
			var p dlnproof.Proof
			copy(p.Alpha[:], v[3:3+128])
			copy(p.T[:], v[3+128:3+256])
			return p.Verify(v[0], v[1], v[2])
		}
		for _, idx := range []int{0, 1, 63, 126, 127} {
			idx := idx
			in.shifts[fmt.Sprintf("alpha[%d]*h1^d,t[%d]+d", idx, idx)] = func(d *big.Int, v []*big.Int) []*big.Int {
				o := vecCopy(v)
				o[3+idx] = mulMod(v[3+idx], expMod(v[0], d, v[2]), v[2])
				o[3+128+idx] = new(big.Int).Add(v[3+128+idx], d)
				return o
			}
		}
	case "paillier":
		pub := crypto.ScalarBaseMult(tss.S256(), add(randBelow(add(getCurve("secp256k1").Q, -2)), 1))
		k := randBelow(new(big.Int).Lsh(one, 256))
		pf := pp.PaillierSK.Proof(k, pub)
		in.cv = getCurve("secp256k1")
		in.vec = []*big.Int{pp.PaillierSK.N, k, pub.X(), pub.Y()}
		in.names = []string{"N", "k", "pub.x", "pub.y"}
		in.stmt[0], in.stmt[1], in.stmt[2], in.stmt[3] = true, true, true, true
		in.points = [][2]int{{2, 3}}
		for i := range pf {
			in.groups["y"] = append(in.groups["y"], len(in.vec))
			in.vec = append(in.vec, pf[i])
			in.names = append(in.names, fmt.Sprintf("y[%d]", i))
		}
		in.verify = func(_ []byte, v []*big.Int) bool {
			P := pt(in.cv, v[2], v[3])
			if P == nil || v[0].BitLen() != 2048 { // other lengths: known finding F8 (challenge sampler), never reached in-protocol
				return false
			}
			var p paillier.Proof
			copy(p[:], v[4:])
			ok, _ := p.Verify(v[0], v[1], P)
			return ok
		}
	case "mod":
		pf, _ := modproof.NewProof(sess, pp.PaillierSK.N, pp.PaillierSK.P, pp.PaillierSK.Q, rand.Reader)
		in.hasSess = true
		in.vec = []*big.Int{pp.PaillierSK.N, pf.W, pf.A, pf.B}
		in.names = []string{"N", "w", "a", "b"}
		in.stmt[0] = true
		for i := 0; i < modproof.Iterations; i++ {
			in.groups["x"] = append(in.groups["x"], len(in.vec))
			in.vec = append(in.vec, pf.X[i])
			in.names = append(in.names, fmt.Sprintf("x[%d]", i))
		}
		for i := 0; i < modproof.Iterations; i++ {
			in.groups["z"] = append(in.groups["z"], len(in.vec))
			in.vec = append(in.vec, pf.Z[i])
			in.names = append(in.names, fmt.Sprintf("z[%d]", i))
		}
		in.verify = func(s []byte, v []*big.Int) bool {
			p := &modproof.ProofMod{W: v[1], A: v[2], B: v[3]}
			copy(p.X[:], v[4:4+80])
			copy(p.Z[:], v[4+80:4+160])
			return p.Verify(s, v[0])
		}
		in.shifts["swap(x,a,b,z) between positions i and i+1"] = func(d *big.Int, v []*big.Int) []*big.Int {
			i := int(d.Int64()%79+79) % 79
			o := vecCopy(v)
			o[4+i], o[4+i+1] = o[4+i+1], o[4+i]
			o[84+i], o[84+i+1] = o[84+i+1], o[84+i]
			for _, w := range []int{2, 3} {
				bi, bj := o[w].Bit(i), o[w].Bit(i+1)
				o[w].SetBit(o[w], i, bj)
				o[w].SetBit(o[w], i+1, bi)
			}
			same := true
			for k := range o {
				if o[k].Cmp(v[k]) != 0 {
					same = false
				}
			}
			if same {
				return nil
			}
			return o
		}
	case "fac":
		pf, _ := facproof.NewProof(sess, cv.EC, pp.PaillierSK.N, vp.NTildei, vp.H1i, vp.H2i, pp.PaillierSK.P, pp.PaillierSK.Q, rand.Reader)
		in.hasSess = true
		in.vec = []*big.Int{pp.PaillierSK.N, vp.NTildei, vp.H1i, vp.H2i, pf.P, pf.Q, pf.A, pf.B, pf.T, pf.Sigma, pf.Z1, pf.Z2, pf.W1, pf.W2, pf.V}
		in.names = []string{"N0", "NCap", "s", "t", "P", "Q", "A", "B", "T", "sigma", "z1", "z2", "w1", "w2", "v"}
		for i := 0; i < 4; i++ {
			in.stmt[i] = true
		}
		in.verify = func(s []byte, v []*big.Int) bool {
			p := &facproof.ProofFac{P: v[4], Q: v[5], A: v[6], B: v[7], T: v[8], Sigma: v[9], Z1: v[10], Z2: v[11], W1: v[12], W2: v[13], V: v[14]}
			return p.Verify(s, cv.EC, v[0], v[1], v[2], v[3])
		}
		in.shifts["A*s^d,T*Q^d,z1+d"] = func(d *big.Int, v []*big.Int) []*big.Int {
			o := vecCopy(v) // z1 occurs in two equations: s^z1 t^w1 = A P^e and Q^z1 t^v = T R^e
			o[6] = mulMod(v[6], expMod(v[2], d, v[1]), v[1])
			o[8] = mulMod(v[8], expMod(v[5], d, v[1]), v[1])
			o[10] = new(big.Int).Add(v[10], d)
			return o
		}
		in.shifts["B*t^d,w2+d"] = func(d *big.Int, v []*big.Int) []*big.Int {
			o := vecCopy(v)
			o[7] = mulMod(v[7], expMod(v[3], d, v[1]), v[1])
			o[13] = new(big.Int).Add(v[13], d)
			return o
		}
		in.shifts["T*t^d,v+d"] = func(d *big.Int, v []*big.Int) []*big.Int {
			o := vecCopy(v)
			o[8] = mulMod(v[8], expMod(v[3], d, v[1]), v[1])
			o[14] = new(big.Int).Add(v[14], d)
			return o
		}
		in.shifts["B*s^d,z2+d"] = func(d *big.Int, v []*big.Int) []*big.Int {
			o := vecCopy(v)
			o[7] = mulMod(v[7], expMod(v[2], d, v[1]), v[1])
			o[11] = new(big.Int).Add(v[11], d)
			return o
		}
		in.shifts["A*t^d,w1+d"] = func(d *big.Int, v []*big.Int) []*big.Int {
			o := vecCopy(v)
			o[6] = mulMod(v[6], expMod(v[3], d, v[1]), v[1])
			o[12] = new(big.Int).Add(v[12], d)
			return o
		}
	case "range":
		m := randBelow(q)
		c, r, _ := pk.EncryptAndReturnRandomness(rand.Reader, m)
		pf, _ := mta.ProveRangeAlice(cv.EC, pk, c, vp.NTildei, vp.H1i, vp.H2i, m, r, rand.Reader)
		in.vec = []*big.Int{pk.N, vp.NTildei, vp.H1i, vp.H2i, c, pf.Z, pf.U, pf.W, pf.S, pf.S1, pf.S2}
		in.names = []string{"N", "NTilde", "h1", "h2", "c", "z", "u", "w", "s", "s1", "s2"}
		for i := 0; i < 5; i++ {
			in.stmt[i] = true
		}
		in.verify = func(_ []byte, v []*big.Int) bool {
			p := &mta.RangeProofAlice{Z: v[5], U: v[6], W: v[7], S: v[8], S1: v[9], S2: v[10]}
			return p.Verify(cv.EC, &paillier.PublicKey{N: v[0]}, v[1], v[2], v[3], v[4])
		}
		in.shifts["u*G^d,w*h1^d,s1+d"] = func(d *big.Int, v []*big.Int) []*big.Int {
			o := vecCopy(v)
			N2 := mul(v[0], v[0])
			o[6] = mulMod(v[6], expMod(add(v[0], 1), d, N2), N2)
			o[7] = mulMod(v[7], expMod(v[2], d, v[1]), v[1])
			o[9] = new(big.Int).Add(v[9], d)
			return o
		}
		in.shifts["w*h2^d,s2+d"] = func(d *big.Int, v []*big.Int) []*big.Int {
			o := vecCopy(v)
			o[7] = mulMod(v[7], expMod(v[3], d, v[1]), v[1])
			o[10] = new(big.Int).Add(v[10], d)
			return o
		}
		in.shifts["u*rho^N,s*rho"] = func(d *big.Int, v []*big.Int) []*big.Int {
			o := vecCopy(v)
			rho := add(new(big.Int).Mod(d, add(v[0], -2)), 2)
			if new(big.Int).GCD(nil, nil, rho, v[0]).Cmp(one) != 0 {
				return nil
			}
			N2 := mul(v[0], v[0])
			o[6] = mulMod(v[6], expMod(rho, v[0], N2), N2)
			o[8] = mulMod(v[8], rho, v[0])
			return o
		}
	case "bob", "bobwc":
		c1, _, _ := pk.EncryptAndReturnRandomness(rand.Reader, randBelow(q))
		x, y := add(randBelow(add(q, -2)), 1), randBelow(pow(q, 5))
		cy, r, _ := pk.EncryptAndReturnRandomness(rand.Reader, y)
		c2, _ := pk.HomoMult(x, c1)
		c2, _ = pk.HomoAdd(c2, cy)
		in.hasSess = true
		var X *crypto.ECPoint
		if sys == "bobwc" {
			X = crypto.ScalarBaseMult(cv.EC, x)
		}
		pf, _ := mta.ProveBobWC(sess, cv.EC, pk, vp.NTildei, vp.H1i, vp.H2i, c1, c2, x, y, r, X, rand.Reader)
		b := pf.ProofBob
		in.vec = []*big.Int{pk.N, vp.NTildei, vp.H1i, vp.H2i, c1, c2, b.Z, b.ZPrm, b.T, b.V, b.W, b.S, b.S1, b.S2, b.T1, b.T2}
		in.names = []string{"N", "NTilde", "h1", "h2", "c1", "c2", "z", "zprm", "t", "v", "w", "s", "s1", "s2", "t1", "t2"}
		for i := 0; i < 6; i++ {
			in.stmt[i] = true
		}
		if sys == "bobwc" {
			in.vec = append(in.vec, X.X(), X.Y(), pf.U.X(), pf.U.Y())
			in.names = append(in.names, "X.x", "X.y", "u.x", "u.y")
			in.stmt[16], in.stmt[17] = true, true
			in.points = [][2]int{{16, 17}, {18, 19}}
		}
		in.verify = func(s []byte, v []*big.Int) bool {
			pb := &mta.ProofBob{Z: v[6], ZPrm: v[7], T: v[8], V: v[9], W: v[10], S: v[11], S1: v[12], S2: v[13], T1: v[14], T2: v[15]}
			kk := &paillier.PublicKey{N: v[0]}
			if sys == "bob" {
				return pb.Verify(s, cv.EC, kk, v[1], v[2], v[3], v[4], v[5])
			}
			XX, U := pt(cv, v[16], v[17]), pt(cv, v[18], v[19])
			if XX == nil || U == nil {
				return false
			}
			return (&mta.ProofBobWC{ProofBob: pb, U: U}).Verify(s, cv.EC, kk, v[1], v[2], v[3], v[4], v[5], XX)
		}
		in.shifts["zprm*h1^d,s1+d(,u+dG)"] = func(d *big.Int, v []*big.Int) []*big.Int {
			o := vecCopy(v)
			o[7] = mulMod(v[7], expMod(v[2], d, v[1]), v[1])
			N2 := mul(v[0], v[0])
			o[9] = mulMod(v[9], expMod(v[4], d, N2), N2)
			o[12] = new(big.Int).Add(v[12], d)
			if sys == "bobwc" {
				U := pt(cv, v[18], v[19])
				U2, err := U.Add(crypto.ScalarBaseMult(cv.EC, new(big.Int).Mod(d, q)))
				if err != nil {
					return nil
				}
				o[18], o[19] = U2.X(), U2.Y()
			}
			return o
		}
		in.shifts["zprm*h2^d,s2+d"] = func(d *big.Int, v []*big.Int) []*big.Int {
			o := vecCopy(v)
			o[7] = mulMod(v[7], expMod(v[3], d, v[1]), v[1])
			o[13] = new(big.Int).Add(v[13], d)
			return o
		}
		in.shifts["w*h2^d,t2+d"] = func(d *big.Int, v []*big.Int) []*big.Int {
			o := vecCopy(v)
			o[10] = mulMod(v[10], expMod(v[3], d, v[1]), v[1])
			o[15] = new(big.Int).Add(v[15], d)
			return o
		}
		in.shifts["v*rho^N,s*rho"] = func(d *big.Int, v []*big.Int) []*big.Int {
			o := vecCopy(v)
			rho := add(new(big.Int).Mod(d, add(v[0], -2)), 2)
			if new(big.Int).GCD(nil, nil, rho, v[0]).Cmp(one) != 0 {
				return nil
			}
			N2 := mul(v[0], v[0])
			o[9] = mulMod(v[9], expMod(rho, v[0], N2), N2)
			o[11] = mulMod(v[11], rho, v[0])
			return o
		}
		in.shifts["w*h1^d,v*G^d,t1+d"] = func(d *big.Int, v []*big.Int) []*big.Int {
			o := vecCopy(v)
			N2 := mul(v[0], v[0])
			o[10] = mulMod(v[10], expMod(v[2], d, v[1]), v[1])
			o[9] = mulMod(v[9], expMod(add(v[0], 1), d, N2), N2)
			o[14] = new(big.Int).Add(v[14], d)
			return o
		}
	}
	if in.verify == nil || !in.verify(sess, in.vec) {
		return nil // not an accepted instance: cannot be used (reported as uncalibrated)
	}
	c12Cache[key] = in
	return in
}

var c12Systems = []string{"schnorr", "schnorr-v", "dln", "paillier", "mod", "fac", "range", "bob", "bobwc"}

type c12Case struct {
	Sys   string
	Curve string
	Set   int
	VSet  int
	Sess  B
	Tr    string // transformation
	Pos   int
	D     H
}

var c12Transforms = []string{"sess-other", "sess-prefix", "sess-suffix", "sess-empty", "sess-index", "+1", "-1", "rand", "zero", "neg", "swap-neighbour", "other-set", "negate-point", "point+G", "shift", "shift", "swap-statement"}

func genC12(t *rapid.T) c12Case {
	c := c12Case{Sys: rapid.SampledFrom(c12Systems).Draw(t, "sys"), Curve: rapid.SampledFrom([]string{"secp256k1", "ed25519"}).Draw(t, "curve"),
		Set: rapid.IntRange(0, 1).Draw(t, "set"), VSet: rapid.IntRange(0, 1).Draw(t, "vset"),
		Tr: rapid.SampledFrom(c12Transforms).Draw(t, "tr"), Pos: rapid.IntRange(0, 400).Draw(t, "pos")}
	c.Sess = bx(append([]byte("sid-"), byte(rapid.IntRange(0, 2).Draw(t, "sessk")), 3))
	c.D = hx(add(drawBigBits(t, "d", 200), 1))
	return c
}

func runC12(c c12Case) ev.Outcome {
	out := ev.Outcome{Label: fmt.Sprintf("%s %s", c.Sys, c.Tr)}
	in := c12Build(c.Sys, c.Curve, c.Set, c.VSet, c.Sess.Bytes())
	if in == nil {
		out.Label = "uncalibrated " + c.Sys
		return out
	}
	sess := in.sess
	v := vecCopy(in.vec)
	pos := c.Pos % len(v)
	d := c.D.Big()
	what := ""
	switch c.Tr {
	case "sess-other", "sess-prefix", "sess-suffix", "sess-empty", "sess-index":
		if !in.hasSess {
			out.Skip = true
			return out
		}
		switch c.Tr {
		case "sess-other":
			sess = append([]byte("x"), sess[1:]...)
		case "sess-prefix":
			sess = sess[:len(sess)-1]
		case "sess-suffix":
			sess = append(append([]byte{}, sess...), 0)
		case "sess-empty":
			sess = nil
		case "sess-index": // same ssid, another prover index
			sess = append(append([]byte{}, sess[:len(sess)-1]...), sess[len(sess)-1]+1)
		}
		what = c.Tr
	case "+1", "-1", "rand", "zero", "neg":
		isPoint := false
		for _, pp := range in.points {
			if pp[0] == pos || pp[1] == pos {
				isPoint = true
			}
		}
		if isPoint {
			out.Skip = true // points are perturbed as points (negate / +G)
			return out
		}
		switch c.Tr {
		case "+1":
			v[pos] = add(v[pos], 1)
		case "-1":
			if v[pos].Sign() == 0 {
				out.Skip = true
				return out
			}
			v[pos] = add(v[pos], -1)
		case "rand":
			nv := randBelow(new(big.Int).Lsh(one, uint(v[pos].BitLen()+1)))
			if nv.Cmp(v[pos]) == 0 {
				nv = add(nv, 1)
			}
			v[pos] = nv
		case "zero":
			if v[pos].Sign() == 0 {
				out.Skip = true
				return out
			}
			v[pos] = big.NewInt(0)
		case "neg": // a scalar modulo the group order replaced by its negative
			q := getCurve(c.Curve).Q
			if v[pos].Sign() == 0 || v[pos].Cmp(q) >= 0 {
				out.Skip = true
				return out
			}
			v[pos] = new(big.Int).Sub(q, v[pos])
		}
		what = fmt.Sprintf("%s %s", in.names[pos], c.Tr)
	case "swap-neighbour":
		done := false
		for _, g := range in.groups {
			for k, p := range g {
				if p == pos && k+1 < len(g) && v[g[k]].Cmp(v[g[k+1]]) != 0 {
					v[g[k]], v[g[k+1]] = v[g[k+1]], v[g[k]]
					what = fmt.Sprintf("swap %s with its neighbour", in.names[pos])
					done = true
				}
			}
		}
		if !done {
			out.Skip = true
			return out
		}
	case "other-set": // a statement component replaced by another party's value
		other := c12Build(c.Sys, c.Curve, 1-c.Set, 1-c.VSet, in.sess)
		if other == nil || !in.stmt[pos] || other.vec[pos].Cmp(v[pos]) == 0 {
			out.Skip = true
			return out
		}
		v[pos] = new(big.Int).Set(other.vec[pos])
		what = fmt.Sprintf("statement %s replaced by another party's", in.names[pos])
	case "negate-point", "point+G":
		if len(in.points) == 0 {
			out.Skip = true
			return out
		}
		pp := in.points[pos%len(in.points)]
		P := pt(in.cv, v[pp[0]], v[pp[1]])
		if c.Tr == "negate-point" {
			if v[pp[1]].Sign() == 0 {
				out.Skip = true
				return out
			}
			if in.cv.Name == "ed25519" { // -(x,y) = (-x,y)
				v[pp[0]] = new(big.Int).Sub(in.cv.P, v[pp[0]])
			} else {
				v[pp[1]] = new(big.Int).Sub(in.cv.P, v[pp[1]])
			}
		} else {
			P2, err := P.Add(crypto.ScalarBaseMult(in.cv.EC, big.NewInt(1)))
			if err != nil {
				out.Skip = true
				return out
			}
			v[pp[0]], v[pp[1]] = P2.X(), P2.Y()
		}
		what = fmt.Sprintf("%s %s", in.names[pp[0]], c.Tr)
	case "shift":
		if len(in.shifts) == 0 {
			out.Skip = true
			return out
		}
		var names []string
		for k := range in.shifts {
			names = append(names, k)
		}
		sortStrings(names)
		nm := names[pos%len(names)]
		v = in.shifts[nm](d, v)
		if v == nil {
			out.Skip = true
			return out
		}
		what = "shift " + nm
	case "swap-statement":
		var st []int
		for i := range v {
			if in.stmt[i] {
				st = append(st, i)
			}
		}
		if len(st) < 2 {
			out.Skip = true
			return out
		}
		a, b := st[pos%len(st)], st[(pos+1)%len(st)]
		if v[a].Cmp(v[b]) == 0 {
			out.Skip = true
			return out
		}
		v[a], v[b] = v[b], v[a]
		what = fmt.Sprintf("statement %s <-> %s", in.names[a], in.names[b])
	}
	out.Label = fmt.Sprintf("%s %s", c.Sys, c.Tr)
	if c.Tr == "+1" || c.Tr == "-1" || c.Tr == "rand" || c.Tr == "zero" || c.Tr == "neg" {
		kind := "proof"
		if in.stmt[pos] {
			kind = "statement"
		}
		out.Label += " " + kind + ":" + stripIndex(in.names[pos])
	}
	out.Nontrivial = true
	var ok bool
	if p := mustNoPanic(func() { ok = in.verify(sess, v) }); p != nil {
		return out // a crash is "not accepted" here; crashes are C06's subject
	}
	if ok {
		out.Err = fmt.Errorf("%s proof still accepted after: %s (%s, sets %d/%d)", c.Sys, what, c.Curve, c.Set, c.VSet)
		out.Sig = fmt.Sprintf("accepted:%s:%s", c.Sys, c.Tr)
	}
	return out
}

func stripIndex(s string) string {
	for i, ch := range s {
		if ch == '[' {
			return s[:i] + "[i]"
		}
	}
	return s
}

func sortStrings(s []string) {
	for i := 1; i < len(s); i++ {
		for j := i; j > 0 && s[j-1] > s[j]; j-- {
			s[j-1], s[j] = s[j], s[j-1]
		}
	}
}

func TestC12Binding(t *testing.T) {
	r := ev.New(t, "C12")
	ev.Drive(t, r, genC12, runC12)
}

// TestC12EveryIndex: every position of every proof (all 128/80/13-fold parts) with +1 and swap-with-neighbour,
// and every shift, systematically.
func TestC12EveryIndex(t *testing.T) {
	r := ev.New(t, "C12")
	var cases []c12Case
	shard, shards := ev.Shard()
	k := 0
	trs := []string{"+1", "neg", "swap-neighbour"}
	if ev.Tier() == "thorough" {
		trs = []string{"+1", "-1", "zero", "rand", "neg", "swap-neighbour"}
	}
	for _, sys := range c12Systems {
		in := c12Build(sys, "secp256k1", 0, 1, []byte("sid-\x00\x03"))
		if in == nil {
			continue
		}
		for pos := range in.vec {
			for _, tr := range trs {
				k++
				if k%shards != shard {
					continue
				}
				cases = append(cases, c12Case{Sys: sys, Curve: "secp256k1", Set: 0, VSet: 1, Sess: bx([]byte("sid-\x00\x03")), Tr: tr, Pos: pos, D: "11"})
			}
		}
		for s := 0; s < len(in.shifts); s++ {
			for _, dd := range []string{"1", "ffffffffffffffffffffffffffffffff"} {
				k++
				if k%shards != shard {
					continue
				}
				cases = append(cases, c12Case{Sys: sys, Curve: "secp256k1", Set: 0, VSet: 1, Sess: bx([]byte("sid-\x00\x03")), Tr: "shift", Pos: s, D: H(dd)})
			}
		}
	}
	ev.Each(t, r, cases, runC12)
	r.SetExhaustive(true)
}

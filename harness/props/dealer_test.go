package props

import (
	"math/big"

	"github.com/bnb-chain/tss-lib/v2/crypto"
	"github.com/bnb-chain/tss-lib/v2/crypto/paillier"
	eckeygen "github.com/bnb-chain/tss-lib/v2/ecdsa/keygen"
	edkeygen "github.com/bnb-chain/tss-lib/v2/eddsa/keygen"
	"github.com/bnb-chain/tss-lib/v2/tss"

	"verif/harness/ref"
)

// dealer synthesises key material with exactly the structure DKG produces (a degree-t polynomial over
// Z_q evaluated at the party keys, public share points, and for ECDSA the vendored Paillier /
// ring-Pedersen parameter sets). It exists only to widen (n,t,party-key) coverage cheaply; every case
// using it is labelled "dealer".
type dealt struct {
	N, T   int
	Keys   []*big.Int // sorted party keys
	Secret *big.Int
	EC     []eckeygen.LocalPartySaveData
	ED     []edkeygen.LocalPartySaveData
}

func dealKeys(edd bool, n, t int, pattern, seed string) *dealt {
	q := ref.Secp.N
	if edd {
		q = ref.Ed.L
	}
	keys := detPartyKeys(pattern, n, q, "dealer/"+seed)
	ids := simSortKeys(keys)
	d := newDRBG("dealer-poly/" + seed)
	rnd := func() *big.Int {
		b := make([]byte, 40)
		d.Read(b)
		v := new(big.Int).SetBytes(b)
		v.Mod(v, new(big.Int).Sub(q, one))
		return v.Add(v, one) // [1,q)
	}
	poly := make([]*big.Int, t+1)
	for i := range poly {
		poly[i] = rnd()
	}
	eval := func(x *big.Int) *big.Int {
		r := new(big.Int)
		for i := t; i >= 0; i-- {
			r.Mul(r, x)
			r.Add(r, poly[i])
			r.Mod(r, q)
		}
		return r
	}
	out := &dealt{N: n, T: t, Keys: ids, Secret: poly[0]}
	curve := tss.S256()
	if edd {
		curve = tss.Edwards()
	}
	xis := make([]*big.Int, n)
	bigX := make([]*crypto.ECPoint, n)
	for i, k := range ids {
		xis[i] = eval(new(big.Int).Mod(k, q))
		if xis[i].Sign() == 0 {
			xis[i] = big.NewInt(0) // astronomically unlikely
		}
		bigX[i] = crypto.ScalarBaseMult(curve, xis[i])
	}
	pub := crypto.ScalarBaseMult(curve, poly[0])
	if edd {
		for i := range ids {
			sd := edkeygen.NewLocalPartySaveData(n)
			sd.Xi, sd.ShareID = xis[i], ids[i]
			copy(sd.Ks, ids)
			copy(sd.BigXj, bigX)
			sd.EDDSAPub = pub
			out.ED = append(out.ED, sd)
		}
		return out
	}
	pre := preParams()
	for i := range ids {
		sd := eckeygen.NewLocalPartySaveData(n)
		sd.LocalPreParams = pre[i]
		sd.Xi, sd.ShareID = xis[i], ids[i]
		copy(sd.Ks, ids)
		copy(sd.BigXj, bigX)
		for j := range ids {
			sd.NTildej[j], sd.H1j[j], sd.H2j[j] = pre[j].NTildei, pre[j].H1i, pre[j].H2i
			sd.PaillierPKs[j] = &paillier.PublicKey{N: pre[j].PaillierSK.N}
		}
		sd.ECDSAPub = pub
		out.EC = append(out.EC, sd)
	}
	return out
}

func simSortKeys(keys []*big.Int) []*big.Int {
	out := append([]*big.Int{}, keys...)
	for i := 1; i < len(out); i++ {
		for j := i; j > 0 && out[j-1].Cmp(out[j]) > 0; j-- {
			out[j-1], out[j] = out[j], out[j-1]
		}
	}
	return out
}

package props

// C05 — A misbehaving peer cannot cause a bad output and is the one blamed.

import (
	"fmt"
	"os"
	"strings"
	"testing"

	"verif/harness/ev"
)

var c05Kinds = []string{"+1", "rand", "other", "remove"}

func c05Configs(protos []string) []protoRun {
	var out []protoRun
	for _, p := range protos {
		out = append(out, fixedRun(p, 3, 1, 1))
	}
	return out
}

func runMatrix(t *testing.T, prop, mode string, protos []string, kinds, listKinds []string, maxPerList int) {
	r := ev.New(t, prop)
	if _, ok := ev.Replaying(); ok {
		ev.Each(t, r, []faultCase{}, func(c faultCase) ev.Outcome { return runFault(c, mode) })
		return
	}
	shard, shards := ev.Shard()
	sample := ev.EnvInt("VERIF_SAMPLE", 0) // 0 = whole matrix; k = every k-th cell (offset by the seed)
	var cases []faultCase
	total := 0
	for _, run := range c05Configs(protos) {
		cells := enumCells(run, kinds, listKinds, int(ev.Seed()%1000), maxPerList)
		if mode == "C05" {
			cells = append(cells, enumCommitCells(run, int(ev.Seed()%1000))...)
			for m := range run.Members {
				cells = append(cells, faultCase{Run: run, F: faultSpec{Deviator: m, Kind: "wrong-secret", Field: fieldRef{"Xi", -1}, MsgType: "(key data)"}})
			}
			if run.Proto == "ecdsa-signing" { // consistent self-built MtA responses (deviator d towards victim v)
				for d := 0; d < 3; d++ {
					v := (d + 1) % 3
					for _, k := range []string{"mta-bob:consistent", "mta-bob:huge-multiplier", "mta-bob:huge-mask", "mta-bobwc:consistent", "mta-bobwc:huge-multiplier", "mta-bobwc:huge-mask"} {
						cells = append(cells, faultCase{Run: run, F: faultSpec{Deviator: d, MsgType: pES + "SignRound2Message", Field: fieldRef{"c1", -1}, Kind: k, Recip: v}})
					}
				}
			}
			if run.Proto == "ecdsa-keygen" || run.Proto == "eddsa-keygen" { // the deviator deals a polynomial of the harness' choosing
				mt := pEK
				if run.Proto == "eddsa-keygen" {
					mt = pDK
				}
				for d := 0; d < 3; d++ {
					for _, k := range []string{"redeal:consistent", "redeal:degree+1", "redeal:degree-1"} {
						cells = append(cells, faultCase{Run: run, F: faultSpec{Deviator: d, MsgType: mt + "KGRound2Message1", Field: fieldRef{"share", -1}, Kind: k, Recip: -1}})
					}
				}
			}
			if run.Proto == "ecdsa-keygen" || run.Proto == "ecdsa-resharing" {
				for _, bits := range []int{1024, 512} {
					for m := 0; m < 2; m++ {
						cells = append(cells, faultCase{Run: run, F: faultSpec{Deviator: m, Kind: fmt.Sprintf("weak-params-%d", bits), Field: fieldRef{"preparams", -1}, MsgType: "(parameters)"}})
					}
				}
			}
		}
		cells = filterCells(cells)
		total += len(cells)
		cases = append(cases, sampleCells(cells, sample, shard, shards)...)
	}
	r.Note(fmt.Sprintf("matrix_cells_total_%s", t.Name()), total)
	ev.Each(t, r, cases, func(c faultCase) ev.Outcome { return runFault(c, mode) })
	r.SetExhaustive(sample <= 1)
}

func TestC05MatrixEdDSA(t *testing.T) {
	runMatrix(t, "C05", "C05", edProtos, c05Kinds, nil, 8)
}

func TestC05MatrixECDSASigning(t *testing.T) {
	runMatrix(t, "C05", "C05", []string{"ecdsa-signing"}, c05Kinds, nil, 8)
}

func TestC05MatrixECDSAKeygen(t *testing.T) {
	runMatrix(t, "C05", "C05", []string{"ecdsa-keygen"}, c05Kinds, nil, 8)
}

func TestC05MatrixECDSAResharing(t *testing.T) {
	runMatrix(t, "C05", "C05", []string{"ecdsa-resharing"}, c05Kinds, nil, 8)
}

func filterCells(cells []faultCase) []faultCase {
	flt := os.Getenv("VERIF_CELLFILTER") // development aid
	if flt == "" {
		return cells
	}
	var out []faultCase
	for _, c := range cells {
		if strings.Contains(fmt.Sprintf("%s.%s:%s", shortType(c.F.MsgType), c.F.Field.Name, c.F.Kind), flt) {
			out = append(out, c)
		}
	}
	return out
}

// sampleCells: the whole list (sample <= 1) or a stratified sample: cells are grouped by (message type,
// field name) and every stratum contributes ceil(len/sample) cells, rotated by the seed, so that every
// field of every message is hit in every run. The result is then split over the shards.
func sampleCells(cells []faultCase, sample, shard, shards int) []faultCase {
	var picked []faultCase
	if sample <= 1 {
		picked = cells
	} else {
		strata := map[string][]faultCase{}
		var order []string
		for _, c := range cells {
			k := c.F.MsgType + "/" + c.F.Field.Name
			switch {
			case c.F.All:
				k += "/all/" + c.F.Kind
			case c.F.Kind == "rand-all-fields":
				k += "/" + c.F.Kind
			case strings.HasPrefix(c.F.Kind, "commit:"):
				k += "/commit"
			case strings.HasPrefix(c.F.Kind, "mta-") || strings.HasPrefix(c.F.Kind, "redeal:"):
				k += "/" + c.F.Kind
			case c.F.Kind == "late+1":
				k = c.F.MsgType + "/late"
			case c.F.Kind == "neg" || c.F.Kind == "point-other" || c.F.Kind == "sum-zero" || c.F.Kind == "mirror" || c.F.Kind == "wrong-secret" || strings.HasPrefix(c.F.Kind, "weak-params") || strings.HasPrefix(c.F.Kind, "bits-"):
				k += "/" + c.F.Kind
			}
			if _, ok := strata[k]; !ok {
				order = append(order, k)
			}
			strata[k] = append(strata[k], c)
		}
		seed := int(ev.Seed())
		for _, k := range order {
			st := strata[k]
			n := (len(st) + sample - 1) / sample
			for i := 0; i < n; i++ {
				picked = append(picked, st[(seed*7+i*sample+len(k))%len(st)])
			}
		}
	}
	var out []faultCase
	for i, c := range picked {
		if i%shards == shard {
			out = append(out, c)
		}
	}
	return out
}

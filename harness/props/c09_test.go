package props

// C09 — The party update API is safe to call from many goroutines.
// Built and run with -race. The Go scheduler owns the interleaving; the harness perturbs it (one
// goroutine per delivery, drawn yields / micro-sleeps, duplicates, both entry points, WaitingFor pollers,
// Start raced against the first deliveries).

import (
	"fmt"
	"runtime"
	"sync"
	"sync/atomic"
	"testing"
	"time"

	"github.com/bnb-chain/tss-lib/v2/tss"
	"pgregory.net/rapid"

	"verif/harness/ev"
	"verif/harness/sim"
)

type c09Case struct {
	Run     protoRun
	Jitter  []int // per-delivery perturbation choices (cycled)
	DupPct  int
	Pollers int
}

func genC09(protos []string) func(t *rapid.T) c09Case {
	return func(t *rapid.T) c09Case {
		c := c09Case{}
		p := rapid.SampledFrom(protos).Draw(t, "proto")
		n := rapid.SampledFrom([]int{2, 3, 3}).Draw(t, "n")
		extra := rapid.IntRange(0, 1).Draw(t, "extra")
		if n == 2 && (p == "eddsa-signing" || p == "ecdsa-signing") {
			extra = 0 // |S| = t+1+extra must not exceed n
		}
		c.Run = fixedRun(p, n, 1, extra)
		c.Jitter = rapid.SliceOfN(rapid.IntRange(0, 9), 8, 40).Draw(t, "jitter")
		c.DupPct = rapid.SampledFrom([]int{0, 10, 30}).Draw(t, "dup")
		c.Pollers = rapid.IntRange(1, 3).Draw(t, "pollers")
		return c
	}
}

func runC09(c c09Case) ev.Outcome {
	x := c.Run.build()
	net := x.net
	out := ev.Outcome{Label: fmt.Sprintf("concurrent %s dup=%d pollers=%d", c.Run, c.DupPct, c.Pollers)}
	fail := func(sig, f string, a ...interface{}) ev.Outcome {
		out.Err, out.Sig = fmt.Errorf(f, a...), sig
		return out
	}
	type nodeState struct {
		inflight int32
		overlap  int32
		results  int32
		errs     int32
		firstErr atomic.Value
	}
	st := make([]*nodeState, len(net.Nodes))
	for i := range st {
		st[i] = &nodeState{}
	}
	var wg sync.WaitGroup
	var seq int64
	stop := make(chan struct{})
	done := make(chan struct{})
	var finishedNodes int32
	total := int32(len(net.Nodes))
	var once sync.Once
	noteResult := func(i int) {
		if atomic.AddInt32(&st[i].results, 1) == 1 {
			if atomic.AddInt32(&finishedNodes, 1) == total {
				once.Do(func() { close(done) })
			}
		}
	}
	deliver := func(to int, bz []byte, from *tss.PartyID, bcast bool, k int64) {
		defer wg.Done()
		switch c.Jitter[int(k)%len(c.Jitter)] {
		case 0, 1, 2:
			runtime.Gosched()
		case 3:
			time.Sleep(time.Duration(k%7) * 10 * time.Microsecond)
		case 4:
			time.Sleep(200 * time.Microsecond)
		}
		nd := net.Nodes[to]
		if n := atomic.AddInt32(&st[to].inflight, 1); n > 1 {
			atomic.StoreInt32(&st[to].overlap, 1)
		}
		var err *tss.Error
		if k%2 == 0 {
			_, err = nd.P.UpdateFromBytes(bz, from, bcast)
		} else {
			pm, perr := tss.ParseWireMessage(bz, from, bcast)
			if perr == nil {
				_, err = nd.P.Update(pm)
			}
		}
		atomic.AddInt32(&st[to].inflight, -1)
		if err != nil {
			atomic.AddInt32(&st[to].errs, 1)
			st[to].firstErr.Store(err.Error())
		}
	}
	// routers: one per node, forwarding everything the party emits
	var rwg sync.WaitGroup
	for _, nd := range net.Nodes {
		nd := nd
		rwg.Add(1)
		go func() {
			defer rwg.Done()
			outCh, ecK, edK, sigCh := sim.Channels(nd)
			for {
				select {
				case <-stop:
					return
				case m := <-outCh:
					bz, _, err := m.WireBytes()
					if err != nil {
						continue
					}
					dests := sim.ResolveDests(net, nd.Idx, m)
					for _, to := range dests {
						reps := 1
						k := atomic.AddInt64(&seq, 1)
						if c.DupPct > 0 && int(k*37%100) < c.DupPct {
							reps = 2
						}
						for r := 0; r < reps; r++ {
							wg.Add(1)
							go deliver(to, bz, nd.ID, m.IsBroadcast(), k+int64(r))
						}
					}
				case <-ecK:
					noteResult(nd.Idx)
				case <-edK:
					noteResult(nd.Idx)
				case <-sigCh:
					noteResult(nd.Idx)
				}
			}
		}()
	}
	// WaitingFor pollers
	for _, nd := range net.Nodes {
		for p := 0; p < c.Pollers; p++ {
			nd := nd
			rwg.Add(1)
			go func() {
				defer rwg.Done()
				for {
					select {
					case <-stop:
						return
					default:
						_ = nd.P.WaitingFor()
						runtime.Gosched()
					}
				}
			}()
		}
	}
	// Start raced against everything else
	for _, nd := range net.Nodes {
		nd := nd
		wg.Add(1)
		go func() {
			defer wg.Done()
			if err := nd.P.Start(); err != nil {
				atomic.AddInt32(&st[nd.Idx].errs, 1)
				st[nd.Idx].firstErr.Store(err.Error())
			}
		}()
	}
	limit := 180 * time.Second
	if !c.Run.edd() {
		limit = 600 * time.Second
	}
	timedOut := false
	select {
	case <-done:
	case <-time.After(limit):
		timedOut = true
	}
	// let in-flight deliveries (duplicates after completion) finish, then stop routers and pollers
	waitCh := make(chan struct{})
	go func() { wg.Wait(); close(waitCh) }()
	select {
	case <-waitCh:
	case <-time.After(60 * time.Second):
	}
	time.Sleep(20 * time.Millisecond)
	close(stop)
	rwg.Wait()
	overl := 0
	for i := range st {
		if atomic.LoadInt32(&st[i].overlap) == 1 {
			overl++
		}
		if e := st[i].firstErr.Load(); e != nil {
			return fail("concurrent-error", "party %d returned an error under concurrent delivery of honest messages: %v", i, e)
		}
	}
	out.Nontrivial = overl > 0
	out.Label += fmt.Sprintf(" overlapped-parties>0=%v", overl > 0)
	if timedOut {
		return fail("concurrent-hang", "not every party finished within %v under concurrent delivery (%d of %d finished)", limit, atomic.LoadInt32(&finishedNodes), total)
	}
	for i := range st {
		if r := atomic.LoadInt32(&st[i].results); r != 1 {
			return fail("concurrent-results", "party %d emitted %d results", i, r)
		}
	}
	return out
}

func TestC09ConcurrentEdDSA(t *testing.T) {
	r := ev.New(t, "C09")
	ev.Drive(t, r, genC09(edProtos), runC09)
}

func TestC09ConcurrentECDSA(t *testing.T) {
	r := ev.New(t, "C09")
	ev.Drive(t, r, genC09([]string{"ecdsa-signing", "ecdsa-keygen", "ecdsa-resharing"}), runC09)
}

package props

// C09 — The party update API is safe to call from many goroutines.
// Built and run with -race. The Go scheduler owns the interleaving; the harness perturbs it (one
// goroutine per delivery, drawn yields / micro-sleeps, duplicates, both entry points, WaitingFor pollers,
// Start raced against the first deliveries).

import (
	"fmt"
	"math/big"
	"runtime"
	"sort"
	"sync"
	"sync/atomic"
	"testing"
	"time"

	"github.com/bnb-chain/tss-lib/v2/tss"
	"google.golang.org/protobuf/reflect/protoreflect"
	"pgregory.net/rapid"

	"verif/harness/ev"
	"verif/harness/sim"
)

type c09Case struct {
	Run     protoRun
	Jitter  []int // per-delivery perturbation choices (cycled)
	DupPct  int
	Pollers int
	// Tamper > 0: one party's message is replaced by an invalid one (the (Tamper-1)-th covered single-field
	// "+1" cell of the configuration, modulo their number); the concurrent run must then end with the same kind
	// of result per party (finished / error naming the same culprits / stalled) as sequential delivery.
	Tamper int `json:",omitempty"`
	// TamperCell: an explicit alteration (directed cases) instead of an index
	TamperCell *faultSpec `json:",omitempty"`
}

func genC09(protos []string) func(t *rapid.T) c09Case {
	return func(t *rapid.T) c09Case {
		c := c09Case{}
		p := rapid.SampledFrom(protos).Draw(t, "proto")
		n := rapid.SampledFrom([]int{2, 3, 3}).Draw(t, "n")
		extra := rapid.IntRange(0, 1).Draw(t, "extra")
		if n == 2 && (p == "eddsa-signing" || p == "ecdsa-signing") {
			extra = 0 // |S| = t+1+extra must not exceed n
		}
		c.Run = fixedRun(p, n, 1, extra)
		c.Run.ShortSSID = rapid.IntRange(0, 2).Draw(t, "shortssid") == 0 // keygen: no effect
		c.Jitter = rapid.SliceOfN(rapid.IntRange(0, 9), 8, 40).Draw(t, "jitter")
		c.DupPct = rapid.SampledFrom([]int{0, 10, 30}).Draw(t, "dup")
		c.Pollers = rapid.IntRange(1, 3).Draw(t, "pollers")
		if rapid.IntRange(0, 2).Draw(t, "tampered") == 0 {
			c.Tamper = 1 + rapid.IntRange(0, 1000).Draw(t, "tamperCell")
			c.DupPct = 0 // a duplicate of an invalid message is a second invalid delivery: the sequential reference has one
		}
		return c
	}
}

// c09Kinds runs the tampered configuration sequentially (FIFO) and returns each party's kind of result.
func c09Kinds(fc faultCase) []string {
	x := fc.Run.build()
	fr := &faultRun{x: x, c: fc}
	fr.install()
	x.net.Run(sim.FIFO{}, 200000)
	kinds := make([]string, len(x.net.Nodes))
	for i, nd := range x.net.Nodes {
		switch {
		case nd.Errored():
			kinds[i] = "error" + fmt.Sprint(culpritSet(x.net, nd.Errs[0]))
		case nd.Finished():
			kinds[i] = "finished"
		default:
			kinds[i] = "stalled"
		}
	}
	return kinds
}

func culpritSet(net *sim.Net, err *tss.Error) []int {
	seen := map[int]bool{}
	var out []int
	for _, c := range culpritNodes(net, err) {
		if !seen[c] {
			seen[c] = true
			out = append(out, c)
		}
	}
	sort.Ints(out)
	return out
}

func runC09(c c09Case) ev.Outcome {
	x := c.Run.build()
	net := x.net
	out := ev.Outcome{Label: fmt.Sprintf("concurrent %s dup=%d pollers=%d", c.Run, c.DupPct, c.Pollers)}
	fail := func(sig, f string, a ...interface{}) ev.Outcome {
		out.Err, out.Sig = fmt.Errorf(f, a...), sig
		return out
	}
	var tamper *faultSpec
	var want []string
	if c.TamperCell != nil {
		fc := faultCase{Run: c.Run, F: *c.TamperCell}
		tamper = &fc.F
		want = c09Kinds(fc)
		out.Label = fmt.Sprintf("concurrent %s pollers=%d tampered=%s.%s[%d]", c.Run, c.Pollers, shortType(tamper.MsgType), tamper.Field.Name, tamper.Field.Idx)
	} else if c.Tamper > 0 {
		var cells []faultCase
		for _, fc := range enumCells(c.Run, []string{"+1"}, nil, 0, 2) {
			if fc.F.Kind == "+1" && coveredFieldKind(fc.F.MsgType, fc.F.Field.Name, "+1") && fc.F.Field.Name != "paillier_n" {
				cells = append(cells, fc)
			}
		}
		if len(cells) == 0 {
			out.Skip = true
			return out
		}
		fc := cells[(c.Tamper-1)%len(cells)]
		tamper = &fc.F
		want = c09Kinds(fc)
		out.Label = fmt.Sprintf("concurrent %s pollers=%d tampered=%s.%s", c.Run, c.Pollers, shortType(tamper.MsgType), tamper.Field.Name)
	}
	type nodeState struct {
		inflight int32
		overlap  int32
		results  int32
		errs     int32
		firstErr atomic.Value
	}
	st := make([]*nodeState, len(net.Nodes))
	for i := range st {
		st[i] = &nodeState{}
	}
	var active int64 // party calls (Start / Update) in flight or about to start
	var seq int64
	var tampered int32
	stop := make(chan struct{})
	done := make(chan struct{})
	var finishedNodes int32
	total := int32(len(net.Nodes))
	var once sync.Once
	noteResult := func(i int) {
		if atomic.AddInt32(&st[i].results, 1) == 1 {
			if atomic.AddInt32(&finishedNodes, 1) == total {
				once.Do(func() { close(done) })
			}
		}
	}
	deliver := func(to int, bz []byte, from *tss.PartyID, bcast bool, k int64) {
		defer atomic.AddInt64(&active, -1)
		switch c.Jitter[int(k)%len(c.Jitter)] {
		case 0, 1, 2:
			runtime.Gosched()
		case 3:
			time.Sleep(time.Duration(k%7) * 10 * time.Microsecond)
		case 4:
			time.Sleep(200 * time.Microsecond)
		}
		nd := net.Nodes[to]
		if n := atomic.AddInt32(&st[to].inflight, 1); n > 1 {
			atomic.StoreInt32(&st[to].overlap, 1)
		}
		var err *tss.Error
		if k%2 == 0 {
			_, err = nd.P.UpdateFromBytes(bz, from, bcast)
		} else {
			pm, perr := tss.ParseWireMessage(bz, from, bcast)
			if perr == nil {
				_, err = nd.P.Update(pm)
			}
		}
		atomic.AddInt32(&st[to].inflight, -1)
		if err != nil {
			if atomic.AddInt32(&st[to].errs, 1) == 1 {
				st[to].firstErr.Store(err)
			}
		}
	}
	// routers: one per node, forwarding everything the party emits
	var rwg sync.WaitGroup
	for _, nd := range net.Nodes {
		nd := nd
		rwg.Add(1)
		go func() {
			defer rwg.Done()
			outCh, ecK, edK, sigCh := sim.Channels(nd)
			for {
				select {
				case <-stop:
					return
				case m := <-outCh:
					bz, _, err := m.WireBytes()
					if err != nil {
						continue
					}
					dests := sim.ResolveDests(net, nd.Idx, m)
					for _, to := range dests {
						bz := bz
						if tamper != nil && nd.Idx == tamper.Deviator && m.Type() == tamper.MsgType && (m.IsBroadcast() || tamper.Recip < 0 || to == tamper.Recip) {
							if nb, err := rewriteWire(bz, func(pm protoreflect.Message) {
								setField(pm, tamper.Field, add(new(big.Int).SetBytes(getField(pm, tamper.Field)), 1).Bytes())
							}); err == nil {
								bz = nb
								atomic.AddInt32(&tampered, 1)
							}
						}
						reps := 1
						k := atomic.AddInt64(&seq, 1)
						if c.DupPct > 0 && int(k*37%100) < c.DupPct {
							reps = 2
						}
						for r := 0; r < reps; r++ {
							atomic.AddInt64(&active, 1)
							go deliver(to, bz, nd.ID, m.IsBroadcast(), k+int64(r))
						}
					}
				case <-ecK:
					noteResult(nd.Idx)
				case <-edK:
					noteResult(nd.Idx)
				case <-sigCh:
					noteResult(nd.Idx)
				}
			}
		}()
	}
	// WaitingFor pollers
	for _, nd := range net.Nodes {
		for p := 0; p < c.Pollers; p++ {
			nd := nd
			rwg.Add(1)
			go func() {
				defer rwg.Done()
				for {
					select {
					case <-stop:
						return
					default:
						_ = nd.P.WaitingFor()
						runtime.Gosched()
					}
				}
			}()
		}
	}
	// Start raced against everything else
	for _, nd := range net.Nodes {
		nd := nd
		atomic.AddInt64(&active, 1)
		go func() {
			defer atomic.AddInt64(&active, -1)
			if err := nd.P.Start(); err != nil {
				if atomic.AddInt32(&st[nd.Idx].errs, 1) == 1 {
					st[nd.Idx].firstErr.Store(err)
				}
			}
		}()
	}
	limit := 180 * time.Second
	if !c.Run.edd() {
		limit = 600 * time.Second
	}
	timedOut := false
	kindOf := func(i int) string {
		if e := st[i].firstErr.Load(); e != nil {
			return "error" + fmt.Sprint(culpritSet(net, e.(*tss.Error)))
		}
		if atomic.LoadInt32(&st[i].results) > 0 {
			return "finished"
		}
		return "stalled"
	}
	stalled := false
	if tamper == nil {
		// done, or the global limit, or a stall: no party call active and none started during 400 consecutive polls
		// (each poll sleeps 10 ms, so routers and deliveries had 400 chances to run): nothing can happen any more
		deadline := time.Now().Add(limit)
		idle := 0
	wait:
		for {
			select {
			case <-done:
				break wait
			default:
			}
			if time.Now().After(deadline) {
				timedOut = true
				break
			}
			if atomic.LoadInt64(&active) == 0 {
				idle++
			} else {
				idle = 0
			}
			if idle >= 400 {
				timedOut, stalled = true, true
				break
			}
			time.Sleep(10 * time.Millisecond)
		}
	} else {
		// wait until every party that errs or finishes in the sequential reference has done so (or the limit)
		deadline := time.Now().Add(limit)
		for {
			reached := true
			for i := range st {
				if want[i] != "stalled" && kindOf(i) == "stalled" {
					reached = false
				}
			}
			if reached || time.Now().After(deadline) {
				break
			}
			time.Sleep(20 * time.Millisecond)
		}
	}
	// let in-flight deliveries (duplicates after completion; in a tampered run the parties that are not
	// affected yet) finish: wait until no call is active and none was started for a while; then stop routers and pollers
	quietSince := time.Now()
	for drainEnd := time.Now().Add(120 * time.Second); time.Now().Before(drainEnd); {
		if atomic.LoadInt64(&active) != 0 {
			quietSince = time.Now()
		} else if time.Since(quietSince) > 400*time.Millisecond {
			break
		}
		time.Sleep(10 * time.Millisecond)
	}
	close(stop)
	rwg.Wait()
	overl := 0
	for i := range st {
		if atomic.LoadInt32(&st[i].overlap) == 1 {
			overl++
		}
	}
	if tamper != nil {
		out.Nontrivial = overl > 0 && atomic.LoadInt32(&tampered) > 0
		out.Label += fmt.Sprintf(" overlapped-parties>0=%v", overl > 0)
		if atomic.LoadInt32(&tampered) == 0 {
			out.Label = "not-applied " + out.Label
			return out
		}
		for i := range st {
			if r := atomic.LoadInt32(&st[i].results); r > 1 {
				return fail("concurrent-results", "party %d emitted %d results", i, r)
			}
			if got := kindOf(i); got != want[i] {
				return fail("concurrent-kind", "%s with %s.%s of party %d altered: party %d ends %q under concurrent delivery but %q under sequential delivery of the same messages (all parties: sequential %v)",
					c.Run, shortType(tamper.MsgType), tamper.Field.Name, tamper.Deviator, i, got, want[i], want)
			}
		}
		return out
	}
	for i := range st {
		if e := st[i].firstErr.Load(); e != nil {
			return fail("concurrent-error", "party %d returned an error under concurrent delivery of honest messages: %v", i, e)
		}
	}
	out.Nontrivial = overl > 0
	out.Label += fmt.Sprintf(" overlapped-parties>0=%v", overl > 0)
	if timedOut {
		how := fmt.Sprintf("within %v", limit)
		if stalled {
			how = "and nothing is left to deliver or run (stall)"
		}
		return fail("concurrent-hang", "not every party finished %s under concurrent delivery (%d of %d finished)", how, atomic.LoadInt32(&finishedNodes), total)
	}
	for i := range st {
		if r := atomic.LoadInt32(&st[i].results); r != 1 {
			return fail("concurrent-results", "party %d emitted %d results", i, r)
		}
	}
	return out
}

func TestC09ConcurrentEdDSA(t *testing.T) {
	r := ev.New(t, "C09")
	ev.Drive(t, r, genC09(edProtos), runC09)
}

func TestC09ConcurrentECDSA(t *testing.T) {
	r := ev.New(t, "C09")
	ev.Drive(t, r, genC09([]string{"ecdsa-signing", "ecdsa-keygen", "ecdsa-resharing"}), runC09)
}

// TestC09Directed: fixed configurations that the random generator reaches rarely: session ids with a leading
// zero byte (the session id then travels and is extended with spare capacity), three new members with all
// proofs on, and messages whose proof list is unparsable / wrong (the verifier goroutines' failure paths).
func TestC09Directed(t *testing.T) {
	r := ev.New(t, "C09")
	jit := []int{0, 3, 1, 4, 2, 0, 5, 3, 1, 0, 4, 2}
	mk := func(proto string, n, extra int, short bool, cell *faultSpec) c09Case {
		run := fixedRun(proto, n, 1, extra)
		run.ShortSSID = short
		return c09Case{Run: run, Jitter: jit, Pollers: 2, TamperCell: cell}
	}
	dln := func(typ, field string, idx, dev int) *faultSpec {
		return &faultSpec{Deviator: dev, MsgType: typ, Field: fieldRef{field, idx}, Kind: "+1", Recip: -1}
	}
	cases := []c09Case{
		mk("ecdsa-resharing", 3, 1, true, nil),
		mk("ecdsa-resharing", 3, 1, false, nil),
		mk("ecdsa-signing", 3, 1, true, nil),
		mk("eddsa-signing", 3, 1, true, nil),
		mk("ecdsa-keygen", 3, 0, false, dln(pEK+"KGRound1Message", "dlnproof_1", 0, 0)), // unparsable list (count prefix)
		mk("ecdsa-keygen", 3, 0, false, dln(pEK+"KGRound1Message", "dlnproof_2", 0, 1)),
		mk("ecdsa-keygen", 3, 0, false, dln(pEK+"KGRound1Message", "dlnproof_1", 7, 0)), // parseable, wrong
		mk("ecdsa-resharing", 3, 1, true, dln(pER+"DGRound2Message1", "dlnproof_1", 0, 2)),
	}
	if ev.Tier() == "thorough" {
		cases = append(cases, cases...)
		cases = append(cases, cases...)
	}
	shard, shards := ev.Shard()
	var mine []c09Case
	for i, c := range cases {
		if i%shards == shard {
			mine = append(mine, c)
		}
	}
	ev.Each(t, r, mine, runC09)
}

package props

// Reference provers with every mask an explicit parameter. They follow the published proof
// descriptions (GG18 appendix A, CGGMP fig. 28) and use the library only for the Fiat-Shamir hash
// (treated as a black-box random oracle). They are generation tools: each use is calibrated by first
// checking that the same prover with in-bound masks is accepted by the library verifier.

import (
	"crypto/rand"
	"math/big"

	"github.com/bnb-chain/tss-lib/v2/common"
	"github.com/bnb-chain/tss-lib/v2/crypto"
	"github.com/bnb-chain/tss-lib/v2/crypto/facproof"
	"github.com/bnb-chain/tss-lib/v2/crypto/mta"
)

func randBelow(m *big.Int) *big.Int {
	v, err := rand.Int(rand.Reader, m)
	if err != nil {
		panic(err)
	}
	return v
}

func randUnit(n *big.Int) *big.Int {
	for {
		v := randBelow(n)
		if v.Sign() > 0 && new(big.Int).GCD(nil, nil, v, n).Cmp(one) == 0 {
			return v
		}
	}
}

func expMod(b, e, m *big.Int) *big.Int { return new(big.Int).Exp(b, e, m) }
func mulMod(a, b, m *big.Int) *big.Int {
	r := new(big.Int).Mul(a, b)
	return r.Mod(r, m)
}

type rangeMasks struct{ Alpha, Beta, Gamma, Rho *big.Int }

func defaultRangeMasks(q, N, NTilde *big.Int) rangeMasks {
	q3 := pow(q, 3)
	return rangeMasks{Alpha: randBelow(q3), Beta: randUnit(N), Gamma: randBelow(mul(q3, NTilde)), Rho: randBelow(mul(q, NTilde))}
}

func refRangeProof(q, N, c, NTilde, h1, h2, m, r *big.Int, k rangeMasks) *mta.RangeProofAlice {
	N2 := mul(N, N)
	G := add(N, 1)
	z := mulMod(expMod(h1, m, NTilde), expMod(h2, k.Rho, NTilde), NTilde)
	u := mulMod(expMod(G, k.Alpha, N2), expMod(k.Beta, N, N2), N2)
	w := mulMod(expMod(h1, k.Alpha, NTilde), expMod(h2, k.Gamma, NTilde), NTilde)
	e := common.SHA512_256i(N, G, c, z, u, w)
	e.Mod(e, q)
	s := mulMod(expMod(r, e, N), k.Beta, N)
	s1 := new(big.Int).Add(mul(e, m), k.Alpha)
	s2 := new(big.Int).Add(mul(e, k.Rho), k.Gamma)
	return &mta.RangeProofAlice{Z: z, U: u, W: w, S: s, S1: s1, S2: s2}
}

type bobMasks struct {
	Alpha, Rho, Sigma, Tau, RhoPrm, Beta, Gamma *big.Int
	NegU                                        bool // the mask point is sent negated: U = -(alpha*G)
}

func defaultBobMasks(q, N, NTilde *big.Int) bobMasks {
	q3 := pow(q, 3)
	return bobMasks{Alpha: randBelow(q3), Rho: randBelow(mul(q, NTilde)), Sigma: randBelow(mul(q, NTilde)), Tau: randBelow(mul(q3, NTilde)),
		RhoPrm: randBelow(mul(q3, NTilde)), Beta: randUnit(N), Gamma: randBelow(pow(q, 7))}
}

// refBobProof: X == nil gives the proof without check. c2 must be c1^x * Enc(y; r).
func refBobProof(session []byte, cv curveRef, N, NTilde, h1, h2, c1, c2, x, y, r *big.Int, X *crypto.ECPoint, k bobMasks) *mta.ProofBobWC {
	q := cv.Q
	N2 := mul(N, N)
	G := add(N, 1)
	z := mulMod(expMod(h1, x, NTilde), expMod(h2, k.Rho, NTilde), NTilde)
	zPrm := mulMod(expMod(h1, k.Alpha, NTilde), expMod(h2, k.RhoPrm, NTilde), NTilde)
	t := mulMod(expMod(h1, y, NTilde), expMod(h2, k.Sigma, NTilde), NTilde)
	v := mulMod(mulMod(expMod(c1, k.Alpha, N2), expMod(G, k.Gamma, N2), N2), expMod(k.Beta, N, N2), N2)
	w := mulMod(expMod(h1, k.Gamma, NTilde), expMod(h2, k.Tau, NTilde), NTilde)
	var u *crypto.ECPoint
	var e *big.Int
	if X == nil {
		e = common.SHA512_256i_TAGGED(session, N, G, c1, c2, z, zPrm, t, v, w)
	} else {
		u = crypto.ScalarBaseMult(cv.EC, new(big.Int).Mod(k.Alpha, q))
		if k.NegU {
			u = crypto.ScalarBaseMult(cv.EC, new(big.Int).Mod(new(big.Int).Neg(k.Alpha), q))
		}
		e = common.SHA512_256i_TAGGED(session, N, G, X.X(), X.Y(), c1, c2, u.X(), u.Y(), z, zPrm, t, v, w)
	}
	e.Mod(e, q)
	s := mulMod(expMod(r, e, N), k.Beta, N)
	s1 := new(big.Int).Add(mul(e, x), k.Alpha)
	s2 := new(big.Int).Add(mul(e, k.Rho), k.RhoPrm)
	t1 := new(big.Int).Add(mul(e, y), k.Gamma)
	t2 := new(big.Int).Add(mul(e, k.Sigma), k.Tau)
	return &mta.ProofBobWC{ProofBob: &mta.ProofBob{Z: z, ZPrm: zPrm, T: t, V: v, W: w, S: s, S1: s1, S2: s2, T1: t1, T2: t2}, U: u}
}

type facMasks struct{ Alpha, Beta, Mu, Nu, Sigma, R, X, Y *big.Int }

func defaultFacMasks(q, N0, NCap *big.Int) facMasks {
	q3 := pow(q, 3)
	sq := new(big.Int).Sqrt(N0)
	return facMasks{Alpha: randBelow(mul(q3, sq)), Beta: randBelow(mul(q3, sq)), Mu: randBelow(mul(q, NCap)), Nu: randBelow(mul(q, NCap)),
		Sigma: randBelow(mul(mul(q, NCap), N0)), R: randBelow(mul(mul(q3, NCap), N0)), X: randBelow(mul(q3, NCap)), Y: randBelow(mul(q3, NCap))}
}

func refFacProof(session []byte, q, N0, NCap, s, t, p0, q0 *big.Int, k facMasks) *facproof.ProofFac {
	P := mulMod(expMod(s, p0, NCap), expMod(t, k.Mu, NCap), NCap)
	Q := mulMod(expMod(s, q0, NCap), expMod(t, k.Nu, NCap), NCap)
	A := mulMod(expMod(s, k.Alpha, NCap), expMod(t, k.X, NCap), NCap)
	B := mulMod(expMod(s, k.Beta, NCap), expMod(t, k.Y, NCap), NCap)
	T := mulMod(expMod(Q, k.Alpha, NCap), expMod(t, k.R, NCap), NCap)
	e := common.SHA512_256i_TAGGED(session, N0, NCap, s, t, P, Q, A, B, T, k.Sigma)
	e.Mod(e, q)
	z1 := new(big.Int).Add(mul(e, p0), k.Alpha)
	z2 := new(big.Int).Add(mul(e, q0), k.Beta)
	w1 := new(big.Int).Add(mul(e, k.Mu), k.X)
	w2 := new(big.Int).Add(mul(e, k.Nu), k.Y)
	v := new(big.Int).Sub(k.Sigma, mul(k.Nu, p0))
	v.Mul(v, e)
	v.Add(v, k.R)
	return &facproof.ProofFac{P: P, Q: Q, A: A, B: B, T: T, Sigma: k.Sigma, Z1: z1, Z2: z2, W1: w1, W2: w2, V: v}
}

func hashBobWC(session []byte, N, G *big.Int, X *crypto.ECPoint, c1, c2 *big.Int, u *crypto.ECPoint, z, zPrm, t, v, w *big.Int) *big.Int {
	return common.SHA512_256i_TAGGED(session, N, G, X.X(), X.Y(), c1, c2, u.X(), u.Y(), z, zPrm, t, v, w)
}

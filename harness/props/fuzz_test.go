package props

// C06 (c) — native coverage-guided fuzz targets (thorough tier only). Each iteration builds FRESH
// parties, so no state leaks between iterations; the oracle is "the call returns" (a panic or a hang
// is reported by the fuzzing engine and saved under testdata/fuzz as the reproducible unit).

import (
	"encoding/binary"
	"math/big"
	"testing"

	"github.com/bnb-chain/tss-lib/v2/crypto"
	cmt "github.com/bnb-chain/tss-lib/v2/crypto/commitments"
	"github.com/bnb-chain/tss-lib/v2/crypto/dlnproof"
	"github.com/bnb-chain/tss-lib/v2/tss"

	"verif/harness/sim"
)

// captured honest wire messages of a protocol (seed corpus)
func honestWire(proto string) [][]byte {
	x := fixedRun(proto, 2, 1, 0).build()
	x.net.Run(sim.FIFO{}, 100000)
	var out [][]byte
	for _, e := range x.net.Emits {
		out = append(out, e.Bytes)
	}
	return out
}

func fuzzUpdate(f *testing.F, proto string) {
	for _, b := range honestWire(proto) {
		f.Add(b, uint8(1), true)
		f.Add(b, uint8(0), false)
	}
	f.Add([]byte{}, uint8(0), true)
	f.Add([]byte{0x0a, 0x00}, uint8(200), false)
	run := fixedRun(proto, 2, 1, 0)
	f.Fuzz(func(t *testing.T, wire []byte, sender uint8, bcast bool) {
		x := run.build()
		net := x.net
		// party 0 started, the last party not started: both situations receive the bytes
		net.Start(0)
		for _, target := range []int{0, len(net.Nodes) - 1} {
			var from *tss.PartyID
			if int(sender) < len(net.Nodes) {
				from = net.Nodes[sender].ID
			} else {
				from = tss.NewPartyID("f", "f", big.NewInt(int64(sender)+1))
				from.Index = int(sender)
			}
			net.Nodes[target].P.UpdateFromBytes(wire, from, bcast)
		}
	})
}

func FuzzUpdateEdDSAKeygen(f *testing.F)    { fuzzUpdate(f, "eddsa-keygen") }
func FuzzUpdateEdDSASigning(f *testing.F)   { fuzzUpdate(f, "eddsa-signing") }
func FuzzUpdateEdDSAResharing(f *testing.F) { fuzzUpdate(f, "eddsa-resharing") }
func FuzzUpdateECDSASigning(f *testing.F)   { fuzzUpdate(f, "ecdsa-signing") }

func FuzzParseSecrets(f *testing.F) {
	f.Add([]byte{1, 1, 2, 1, 2}, uint8(1))
	f.Add([]byte{0xff, 0xff, 0xff, 0xff, 0xff, 0xff, 0xff, 0xff, 0}, uint8(8))
	f.Fuzz(func(t *testing.T, data []byte, width uint8) {
		w := int(width%9) + 1
		var ints []*big.Int
		for i := 0; i+w <= len(data) && len(ints) < 64; i += w {
			ints = append(ints, new(big.Int).SetBytes(data[i:i+w]))
		}
		parts, err := cmt.ParseSecrets(ints)
		if err != nil {
			return
		}
		b := cmt.NewBuilder()
		for _, p := range parts {
			b.AddPart(p)
		}
		re, err := b.Secrets()
		if err != nil || !intsEqual(re, ints) {
			t.Fatalf("ParseSecrets accepted %v as %d parts, which re-encodes to %v (%v)", ints, len(parts), re, err)
		}
	})
}

func FuzzDLNUnmarshal(f *testing.F) {
	f.Add([]byte{2, 0, 1, 5, 1, 7}, uint8(1))
	f.Fuzz(func(t *testing.T, data []byte, width uint8) {
		w := int(width%9) + 1
		var bzs [][]byte
		for i := 0; i+w <= len(data) && len(bzs) < 300; i += w {
			bzs = append(bzs, data[i:i+w])
		}
		if p, err := dlnproof.UnmarshalDLNProof(bzs); err == nil {
			p.Verify(big.NewInt(4), big.NewInt(9), big.NewInt(35))
		}
	})
}

func FuzzPointJSON(f *testing.F) {
	f.Add([]byte(`{"Curve":"secp256k1","Coords":[1,2]}`))
	f.Add([]byte(`{"Curve":"ed25519","Coords":[0,1]}`))
	f.Add([]byte(`{"Coords":[-1,2]}`))
	f.Fuzz(func(t *testing.T, data []byte) {
		var p crypto.ECPoint
		if err := p.UnmarshalJSON(data); err == nil {
			if !p.ValidateBasic() {
				t.Fatalf("UnmarshalJSON accepted %s but the point does not validate", data)
			}
			x, y := p.X(), p.Y()
			if x.Sign() < 0 || y.Sign() < 0 {
				t.Fatalf("UnmarshalJSON accepted negative coordinates: %s", data)
			}
		}
	})
}

func FuzzPointGob(f *testing.F) {
	f.Add([]byte{1, 0, 0, 0, 2, 1, 0, 0, 0, 2})
	f.Fuzz(func(t *testing.T, data []byte) {
		// excluded by construction: a length prefix larger than the input. The decoder allocates that many
		// bytes before it notices the input is too short (up to 4 GiB from a 10-byte input: observation O2 in
		// DESIGN.md, a resource matter outside the listed properties); such inputs are rejected anyway and
		// would only kill the fuzz workers. Small over-long prefixes are covered by the C17 decoder tables.
		if len(data) >= 4 {
			l1 := int(binary.LittleEndian.Uint32(data[:4]))
			if l1 > len(data) {
				t.Skip()
			}
			if len(data) >= 8+l1 {
				if l2 := int(binary.LittleEndian.Uint32(data[4+l1 : 8+l1])); l2 > len(data) {
					t.Skip()
				}
			}
		}
		var p crypto.ECPoint
		if err := p.GobDecode(data); err == nil && !p.ValidateBasic() {
			t.Fatalf("GobDecode accepted bytes that do not give a valid point")
		}
	})
}

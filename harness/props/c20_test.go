package props

// C20 — Key material survives storage and repeated use unchanged; nonces are fresh.
// Stateful: a generated history of operations on ONE stored key; the invariant runs after every step.

import (
	"bytes"
	"crypto/ecdsa"
	"encoding/json"
	"fmt"
	"io"
	"math/big"
	"strings"
	"testing"

	"github.com/bnb-chain/tss-lib/v2/crypto/ckd"
	eckeygen "github.com/bnb-chain/tss-lib/v2/ecdsa/keygen"
	edkeygen "github.com/bnb-chain/tss-lib/v2/eddsa/keygen"
	"github.com/bnb-chain/tss-lib/v2/tss"
	"google.golang.org/protobuf/reflect/protoreflect"
	"pgregory.net/rapid"

	"verif/harness/ev"
	"verif/harness/ref"
	"verif/harness/sim"
)

type c20Action struct {
	Kind     string   // reload | sign | sign-kdd | abort-silent | abort-tamper
	Signers  []int    `json:",omitempty"`
	Msg      H        `json:",omitempty"`
	Repeat   bool     `json:",omitempty"` // reuse the previous session's signers and message
	Reloaded bool     `json:",omitempty"` // use the reloaded copy instead of the in-memory original
	Path     []uint32 `json:",omitempty"`
	At       int      `json:",omitempty"`
	Who      int      `json:",omitempty"`
}

type c20Case struct {
	EdDSA   bool
	Key     keyChoice
	Actions []c20Action
}

func genC20(edd bool) func(t *rapid.T) c20Case {
	return func(t *rapid.T) c20Case {
		c := c20Case{EdDSA: edd, Key: genKeyChoice(t, edd)}
		maxK := ev.Scale(6, 14)
		if !edd {
			maxK = ev.Scale(4, 8)
		}
		n := rapid.IntRange(3, maxK).Draw(t, "k")
		kinds := []string{"reload", "sign", "sign", "sign", "abort-silent", "abort-tamper"}
		if !edd {
			kinds = append(kinds, "sign-kdd", "sign-kdd")
		}
		for i := 0; i < n; i++ {
			a := c20Action{Kind: rapid.SampledFrom(kinds).Draw(t, "kind")}
			a.Signers = genSigners(t, c.Key.N, c.Key.T)
			if edd {
				a.Msg = hx(add(drawBigBits(t, "msg", rapid.IntRange(8, 400).Draw(t, "bits")), 1))
			} else {
				a.Msg = hx(drawBelow(t, "digest", ref.Secp.N))
			}
			a.Repeat = rapid.Bool().Draw(t, "repeat")
			a.Reloaded = rapid.Bool().Draw(t, "reloaded")
			if a.Kind == "sign-kdd" {
				for k := rapid.IntRange(1, 3).Draw(t, "pl"); k > 0; k-- {
					a.Path = append(a.Path, genIndex(t))
				}
			}
			a.At = rapid.IntRange(0, 40).Draw(t, "at")
			a.Who = rapid.IntRange(0, 10).Draw(t, "who")
			c.Actions = append(c.Actions, a)
		}
		return c
	}
}

func runC20(c c20Case) ev.Outcome {
	proto := "ecdsa"
	if c.EdDSA {
		proto = "eddsa"
	}
	var shape []string
	for _, a := range c.Actions {
		shape = append(shape, a.Kind)
	}
	out := ev.Outcome{Label: fmt.Sprintf("history %s %s [%s]", proto, c.Key, strings.Join(shape, ","))}
	fail := func(sig, f string, a ...interface{}) ev.Outcome {
		out.Err, out.Sig = fmt.Errorf(f, a...), sig
		return out
	}
	// the stored key: deep copies of the generated key data (the party constructors get these structs themselves)
	var storedEC, reloadedEC []eckeygen.LocalPartySaveData
	var storedED, reloadedED []edkeygen.LocalPartySaveData
	var pubX, pubY *big.Int
	if c.EdDSA {
		data, _, _, err := c.Key.resolveED()
		if err != nil {
			panic("harness: " + err.Error())
		}
		for _, d := range data {
			storedED = append(storedED, deepCopyED(d))
		}
		pubX, pubY = data[0].EDDSAPub.X(), data[0].EDDSAPub.Y()
	} else {
		data, _, err := c.Key.resolveEC()
		if err != nil {
			panic("harness: " + err.Error())
		}
		for _, d := range data {
			storedEC = append(storedEC, deepCopyEC(d))
		}
		pubX, pubY = data[0].ECDSAPub.X(), data[0].ECDSAPub.Y()
	}
	n := len(storedEC) + len(storedED)
	snap := make([][]byte, n)
	for i := 0; i < n; i++ {
		if c.EdDSA {
			snap[i] = jsonOf(storedED[i])
		} else {
			snap[i] = jsonOf(storedEC[i])
		}
	}
	invariant := func(step int, what string) *runProblem {
		for i := 0; i < n; i++ {
			var now []byte
			if c.EdDSA {
				now = jsonOf(storedED[i])
			} else {
				now = jsonOf(storedEC[i])
			}
			if !bytes.Equal(now, snap[i]) {
				return &runProblem{"stored-modified:" + what, fmt.Sprintf("step %d (%s): stored key data of party %d is no longer identical to its snapshot", step, what, i)}
			}
			if reloadedEC != nil && !bytes.Equal(jsonOf(reloadedEC[i]), snap[i]) {
				return &runProblem{"reloaded-modified:" + what, fmt.Sprintf("step %d (%s): reloaded key data of party %d changed", step, what, i)}
			}
			if reloadedED != nil && !bytes.Equal(jsonOf(reloadedED[i]), snap[i]) {
				return &runProblem{"reloaded-modified:" + what, fmt.Sprintf("step %d (%s): reloaded key data of party %d changed", step, what, i)}
			}
		}
		return nil
	}
	type sess struct {
		R    string
		desc string
	}
	var sessions []sess
	completed, reloads, aborts := 0, 0, 0
	var prevSigners []int
	var prevMsg *big.Int
	for step, a := range c.Actions {
		signers, msg := a.Signers, a.Msg.Big()
		if a.Repeat && prevSigners != nil {
			signers, msg = prevSigners, prevMsg
		}
		useReloaded := a.Reloaded && (reloadedEC != nil || reloadedED != nil)
		switch a.Kind {
		case "reload":
			reloads++
			if c.EdDSA {
				reloadedED = nil
				for i := range storedED {
					var k edkeygen.LocalPartySaveData
					// written with one process-global default curve, read back with the other (the documents name their curve)
					setGlobalCurve(c.EdDSA, step%2 == 0)
					doc := jsonOf(storedED[i])
					setGlobalCurve(c.EdDSA, step%2 != 0)
					if err := json.Unmarshal(doc, &k); err != nil {
						return fail("reload", "stored key data does not load back: %v", err)
					}
					if !bytes.Equal(jsonOf(k), snap[i]) {
						return fail("reload-differs", "JSON(reloaded) != JSON(original) for party %d", i)
					}
					if k.EDDSAPub == nil || !tss.SameCurve(k.EDDSAPub.Curve(), tss.Edwards()) {
						return fail("reload-curve", "reloaded public key lost its curve")
					}
					reloadedED = append(reloadedED, k)
				}
			} else {
				reloadedEC = nil
				for i := range storedEC {
					var k eckeygen.LocalPartySaveData
					// written with one process-global default curve, read back with the other (the documents name their curve)
					setGlobalCurve(c.EdDSA, step%2 == 0)
					doc := jsonOf(storedEC[i])
					setGlobalCurve(c.EdDSA, step%2 != 0)
					if err := json.Unmarshal(doc, &k); err != nil {
						return fail("reload", "stored key data does not load back: %v", err)
					}
					if !bytes.Equal(jsonOf(k), snap[i]) {
						return fail("reload-differs", "JSON(reloaded) != JSON(original) for party %d", i)
					}
					if k.ECDSAPub == nil || !tss.SameCurve(k.ECDSAPub.Curve(), tss.S256()) || !tss.SameCurve(k.BigXj[0].Curve(), tss.S256()) {
						return fail("reload-curve", "reloaded points lost their curve")
					}
					reloadedEC = append(reloadedEC, k)
				}
			}
		default:
			cfg := sim.SignCfg{EdDSA: c.EdDSA, T: c.Key.T, Msg: msg, FullBytesLen: -1}
			// the parameters also carry the (seeded, hence repeating) source a caller may configure for key
			// generation's reproducible u_i; signing nonces must come from Rand(), never from it
			cfg.PartialKeyRand = func(i int) io.Reader { return newDRBG(fmt.Sprintf("c20-partial-key/%d", i)) }
			checkX, checkY := pubX, pubY
			srcEC, srcED := storedEC, storedED
			if useReloaded {
				srcEC, srcED = reloadedEC, reloadedED
			}
			if a.Kind == "sign-kdd" {
				chain := bytes.Repeat([]byte{byte(step + 1)}, 32)
				parent := &ckd.ExtendedKey{PublicKey: ecdsa.PublicKey{Curve: tss.S256(), X: pubX, Y: pubY}, ChainCode: chain, ParentFP: []byte{0, 0, 0, 0}, Version: xpubVersion}
				delta, child, err := ckd.DeriveChildKeyFromHierarchy(a.Path, parent, ref.Secp.N, tss.S256())
				if err != nil {
					continue
				}
				cps, err := adjustedCopies(srcEC, delta, &child.PublicKey)
				if err != nil {
					return fail("adjust", "UpdatePublicKeyAndAdjustBigXj: %v", err)
				}
				srcEC = cps
				cfg.KDD = delta
				checkX, checkY = child.PublicKey.X, child.PublicKey.Y
			}
			for _, i := range signers {
				if c.EdDSA {
					cfg.EDKeys = append(cfg.EDKeys, srcED[i]) // the stored struct itself
				} else {
					cfg.ECKeys = append(cfg.ECKeys, srcEC[i])
				}
			}
			net, _, _ := sim.NewSigning(cfg)
			switch a.Kind {
			case "abort-silent":
				who, at := a.Who%len(net.Nodes), a.At
				net.AfterStep = func(s sim.Step) {
					if net.StepN >= at {
						net.Nodes[who].Silent = true
					}
				}
				if at == 0 {
					net.Nodes[who].Silent = true
				}
			case "abort-tamper":
				who := a.Who % len(net.Nodes)
				cnt := 0
				net.OnCreate = func(d *sim.Delivery) bool {
					if d.E.From == who {
						cnt++
						if cnt == 1+a.At%7 {
							_, refs, _, err := listFields(d.E.Bytes)
							if err == nil && len(refs) > 0 {
								f := refs[a.At%len(refs)]
								if nb, err := rewriteWire(d.E.Bytes, func(m protoreflect.Message) {
									setField(m, f, add(new(big.Int).SetBytes(getField(m, f)), 1).Bytes())
								}); err == nil {
									d.Bytes, d.Parsed, d.Tag = nb, nil, "tampered"
								}
							}
						}
					}
					return true
				}
			}
			net.Run(sim.FIFO{}, 100000)
			if a.Kind == "abort-silent" || a.Kind == "abort-tamper" {
				aborts++
			}
			allDone := net.AllFinished() && !net.AnyErr()
			if a.Kind == "sign" || a.Kind == "sign-kdd" {
				if e := honestRunProblems(net); e != nil {
					return fail("session:"+e.sig, "step %d (%s, reloaded=%v): %s", step, a.Kind, useReloaded, e.msg)
				}
			}
			if allDone {
				completed++
				for _, nd := range net.Nodes {
					var err error
					if c.EdDSA {
						err = checkEdDSASig(nd.Sigs[0], checkX, checkY, msg.Bytes())
					} else {
						err = checkECDSASig(nd.Sigs[0], checkX, checkY, msg, -1)
					}
					if err != nil {
						return fail("signature", "step %d (%s, reloaded=%v): %v", step, a.Kind, useReloaded, err)
					}
				}
				R := fmt.Sprintf("%x", net.Nodes[0].Sigs[0].R)
				desc := fmt.Sprintf("step %d signers %v msg %x", step, signers, msg)
				for _, s := range sessions {
					if s.R == R {
						return fail("nonce-reuse", "two completed sessions used the same signature nonce R: (%s) and (%s)", s.desc, desc)
					}
				}
				sessions = append(sessions, sess{R, desc})
			}
			prevSigners, prevMsg = signers, msg
		}
		if p := invariant(step, a.Kind); p != nil {
			out.Err, out.Sig = fmt.Errorf("%s", p.msg), p.sig
			return out
		}
	}
	out.Nontrivial = completed >= 2 && (reloads > 0 || aborts > 0)
	out.Label = fmt.Sprintf("history %s %s len=%d completed=%d reloads=%d aborts=%d kdd=%v", proto, c.Key.Src, len(c.Actions), completed, reloads, aborts, strings.Contains(strings.Join(shape, ","), "kdd"))
	if out.Nontrivial {
		out.Label += " [" + strings.Join(shape, ",") + "]"
	}
	return out
}

func TestC20HistoriesEdDSA(t *testing.T) {
	r := ev.New(t, "C20")
	ev.Drive(t, r, genC20(true), runC20)
}

func TestC20HistoriesECDSA(t *testing.T) {
	r := ev.New(t, "C20")
	ev.Drive(t, r, genC20(false), runC20)
}

package props

// C19 — Generated primes and pre-parameters have the structure the proofs assume.

import (
	"context"
	"crypto/rand"
	"errors"
	"fmt"
	"io"
	"math/big"
	"runtime"
	"strings"
	"sync/atomic"
	"testing"
	"time"

	"github.com/bnb-chain/tss-lib/v2/common"
	"github.com/bnb-chain/tss-lib/v2/crypto"
	"github.com/bnb-chain/tss-lib/v2/ecdsa/keygen"
	"pgregory.net/rapid"

	"verif/harness/ev"
)

// instrumented entropy source
type instrReader struct {
	base     io.Reader
	reads    int64
	failAt   int64 // fail at this read (1-based), 0 = never
	cancel   context.CancelFunc
	cancelAt int64
	slow     time.Duration
}

var errEntropy = errors.New("entropy source failed (injected)")

func (r *instrReader) Read(p []byte) (int, error) {
	n := atomic.AddInt64(&r.reads, 1)
	if r.cancel != nil && r.cancelAt > 0 && n >= r.cancelAt {
		r.cancel()
	}
	if r.failAt > 0 && n >= r.failAt {
		if r.slow > 0 {
			time.Sleep(r.slow)
		}
		return 0, errEntropy
	}
	return r.base.Read(p)
}

// shortReader is a healthy entropy source that returns at most max bytes per call (io.Reader allows that).
type shortReader struct {
	base io.Reader
	max  int
}

func (r shortReader) Read(p []byte) (int, error) {
	if len(p) > r.max {
		p = p[:r.max]
	}
	return r.base.Read(p)
}

// zeroRun: the longest run of zero bytes in v's big-endian encoding.
func zeroRun(v *big.Int) int {
	best, cur := 0, 0
	for _, b := range v.Bytes() {
		if b == 0 {
			cur++
			if cur > best {
				best = cur
			}
		} else {
			cur = 0
		}
	}
	return best
}

func primeGenGoroutines() int {
	buf := make([]byte, 1<<20)
	n := runtime.Stack(buf, true)
	return strings.Count(string(buf[:n]), "runGenPrimeRoutine")
}

// waitNoPrimeGoroutines polls (with a grace period) until no generator goroutine is left.
func waitNoPrimeGoroutines(base int) int {
	deadline := time.Now().Add(5 * time.Second)
	for {
		c := primeGenGoroutines()
		if c <= base || time.Now().After(deadline) {
			return c
		}
		time.Sleep(20 * time.Millisecond)
	}
}

type c19Case struct {
	Bits   int
	Num    int
	Conc   int
	Reader string // crypto | drbg | onebyte | chunk | fail | fail-slow | cancel
	At     int
	Seed   int
}

func genC19(t *rapid.T) c19Case {
	c := c19Case{}
	c.Bits = rapid.SampledFrom([]int{6, 7, 8, 9, 10, 10, 11, 12, 13, 14, 15, 16, 17, 18, 19, 20, 24, 32, 64, 128, 256}).Draw(t, "bits")
	c.Num = rapid.IntRange(1, 4).Draw(t, "num")
	c.Conc = rapid.IntRange(1, 8).Draw(t, "conc")
	c.Reader = rapid.SampledFrom([]string{"crypto", "crypto", "drbg", "onebyte", "chunk", "fail", "fail-slow", "cancel", "cancel"}).Draw(t, "reader")
	c.At = rapid.IntRange(1, 60).Draw(t, "at")
	c.Seed = rapid.IntRange(0, 1<<20).Draw(t, "seed")
	return c
}

func checkSafePrime(sgp *common.GermainSafePrime, bits int, admissible map[int64]bool) error {
	q, p := sgp.Prime(), sgp.SafePrime()
	if q == nil || p == nil {
		return fmt.Errorf("nil component")
	}
	if new(big.Int).Add(new(big.Int).Lsh(q, 1), one).Cmp(p) != 0 {
		return fmt.Errorf("p != 2q+1")
	}
	if p.BitLen() != bits {
		return fmt.Errorf("p has %d bits, requested %d", p.BitLen(), bits)
	}
	if p.Bit(bits-1) != 1 || p.Bit(bits-2) != 1 {
		return fmt.Errorf("the two top bits of p=%v are not both set", p)
	}
	if bits <= 20 {
		if !isPrimeSmall(q.Int64()) || !isPrimeSmall(p.Int64()) {
			return fmt.Errorf("q=%v or p=%v is not prime (trial division)", q, p)
		}
		if admissible != nil && !admissible[p.Int64()] {
			return fmt.Errorf("p=%v is not in the harness-enumerated set of admissible safe primes", p)
		}
	} else if !q.ProbablyPrime(64) || !p.ProbablyPrime(64) {
		return fmt.Errorf("q or p is not prime")
	}
	if !sgp.Validate() {
		return fmt.Errorf("Validate() is false on a returned pair")
	}
	return nil
}

func runC19(c c19Case) ev.Outcome {
	out := ev.Outcome{Label: fmt.Sprintf("safeprimes bits=%d num=%d conc=%d reader=%s", c.Bits, c.Num, c.Conc, c.Reader)}
	out.Nontrivial = (c.Bits <= 20 && c.Conc >= 2) || c.Reader == "fail" || c.Reader == "fail-slow" || c.Reader == "cancel" || c.Reader == "onebyte" || c.Reader == "chunk"
	fail := func(sig, f string, a ...interface{}) ev.Outcome {
		out.Err, out.Sig = fmt.Errorf(f, a...), sig
		return out
	}
	var admissible map[int64]bool
	if c.Bits <= 20 {
		admissible = map[int64]bool{}
		for _, p := range admissibleSafePrimes(c.Bits) {
			admissible[p] = true
		}
	}
	feasible := admissible == nil || len(admissible) > 0
	baseG := primeGenGoroutines()
	ctx, cancel := context.WithTimeout(context.Background(), 60*time.Second)
	defer cancel()
	if !feasible {
		ctx, cancel = context.WithTimeout(context.Background(), 1500*time.Millisecond)
		defer cancel()
	}
	var rd io.Reader = rand.Reader
	ir := &instrReader{base: rand.Reader}
	switch c.Reader {
	case "drbg":
		rd = newDRBG(fmt.Sprintf("c19/%d", c.Seed))
	case "onebyte":
		rd = shortReader{rand.Reader, 1}
	case "chunk":
		rd = shortReader{rand.Reader, c.At%7 + 2}
	case "fail":
		ir.failAt = int64(c.At)
		rd = ir
	case "fail-slow":
		ir.failAt = int64(c.At%6 + 1)
		ir.slow = 30 * time.Millisecond
		rd = ir
	case "cancel":
		ir.cancel, ir.cancelAt = cancel, int64(c.At)
		rd = ir
	}
	type res struct {
		ps  []*common.GermainSafePrime
		err error
	}
	ch := make(chan res, 1)
	start := time.Now()
	go func() {
		ps, err := common.GetRandomSafePrimesConcurrent(ctx, c.Bits, c.Num, c.Conc, rd)
		ch <- res{ps, err}
	}()
	var r res
	select {
	case r = <-ch:
	case <-time.After(90 * time.Second):
		return fail("safeprime-hang", "GetRandomSafePrimesConcurrent(bits=%d,num=%d,conc=%d,reader=%s) did not return", c.Bits, c.Num, c.Conc, c.Reader)
	}
	took := time.Since(start)
	if left := waitNoPrimeGoroutines(baseG); left > baseG {
		return fail("goroutine-leak", "%d generator goroutine(s) still alive after the call returned (reader=%s)", left-baseG, c.Reader)
	}
	if !feasible {
		if r.err == nil {
			return fail("impossible-result", "no admissible safe prime of %d bits exists, but the call returned %v", c.Bits, r.ps)
		}
		out.Label += " (no admissible prime: context error expected)"
		return out
	}
	if r.err != nil {
		switch c.Reader {
		case "crypto", "drbg", "onebyte", "chunk":
			return fail("unexpected-error", "generation failed without an injected fault (reader=%s): %v", c.Reader, r.err)
		}
		if c.Reader == "cancel" && took > 20*time.Second {
			return fail("cancel-slow", "cancellation took %v to be honoured", took)
		}
		return out
	}
	if len(r.ps) != c.Num {
		return fail("count", "asked for %d pairs, got %d", c.Num, len(r.ps))
	}
	for _, sgp := range r.ps {
		if err := checkSafePrime(sgp, c.Bits, admissible); err != nil {
			return fail("structure", "bits=%d: %v", c.Bits, err)
		}
		// a prime drawn from a healthy source has no long run of zero bytes (chance < 2^-40 per prime)
		if c.Bits >= 128 && zeroRun(sgp.Prime()) >= 6 {
			return fail("degenerate", "bits=%d reader=%s: q=%x contains %d consecutive zero bytes", c.Bits, c.Reader, sgp.Prime(), zeroRun(sgp.Prime()))
		}
	}
	return out
}

func TestC19SafePrimes(t *testing.T) {
	r := ev.New(t, "C19")
	ev.Drive(t, r, genC19, runC19)
}

// TestC19SmallSizesSweep: every bit length 6..20, several concurrency levels, many calls each.
func TestC19SmallSizesSweep(t *testing.T) {
	r := ev.New(t, "C19")
	var cases []c19Case
	reps := ev.Scale(12, 80)
	for bits := 6; bits <= 20; bits++ {
		for rep := 0; rep < reps; rep++ {
			cases = append(cases, c19Case{Bits: bits, Num: 1 + rep%3, Conc: 1 + (rep*3+bits)%6, Reader: []string{"crypto", "drbg"}[rep%2], Seed: rep})
		}
	}
	// entropy failure with more workers than requested primes, slow failing reads
	for conc := 3; conc <= 8; conc++ {
		for num := 1; num <= 2; num++ {
			cases = append(cases, c19Case{Bits: 32, Num: num, Conc: conc, Reader: "fail-slow", At: 1})
			cases = append(cases, c19Case{Bits: 256, Num: num, Conc: conc, Reader: "fail-slow", At: 2})
		}
	}
	// healthy entropy sources that return short reads (1 byte, or a few bytes, per call)
	for _, bits := range []int{32, 64, 128, 256} {
		for conc := 1; conc <= 3; conc++ {
			cases = append(cases, c19Case{Bits: bits, Num: 1 + conc%2, Conc: conc, Reader: "onebyte"})
			for at := 0; at < 7; at += 3 {
				cases = append(cases, c19Case{Bits: bits, Num: 1 + conc%2, Conc: conc, Reader: "chunk", At: at})
			}
		}
	}
	ev.Each(t, r, cases, runC19)
}

// TestC19LargePrimes: a few calls at 512 / 1024 bits.
func TestC19LargePrimes(t *testing.T) {
	r := ev.New(t, "C19")
	cases := []c19Case{{Bits: 512, Num: 2, Conc: 4, Reader: "crypto"}, {Bits: 1024, Num: 1, Conc: 8, Reader: "crypto"}}
	if ev.Tier() == "thorough" {
		for i := 0; i < 4; i++ {
			cases = append(cases, c19Case{Bits: 1024, Num: 2, Conc: 8, Reader: "crypto"}, c19Case{Bits: 512, Num: 3, Conc: 3, Reader: "drbg", Seed: i})
		}
		cases = append(cases, c19Case{Bits: 1024, Num: 2, Conc: 8, Reader: "cancel", At: 40})
	}
	ev.Each(t, r, cases, runC19)
}

// ------------------------------------------------------------------------------------------------ pre-parameters

type c19Pre struct {
	Conc int
	Rd   string
}

func TestC19PreParams(t *testing.T) {
	r := ev.New(t, "C19")
	n := ev.Scale(2, 12)
	var cases []c19Pre
	for i := 0; i < n; i++ {
		cases = append(cases, c19Pre{Conc: []int{16, 3, 8, 1, 6}[i%5], Rd: []string{"crypto", "drbg"}[i%2]})
	}
	cases = append(cases, c19Pre{Conc: 8, Rd: "cancel"}, c19Pre{Conc: 8, Rd: "fail"})
	ev.Each(t, r, cases, func(c c19Pre) ev.Outcome {
		out := ev.Outcome{Label: fmt.Sprintf("preparams conc=%d reader=%s", c.Conc, c.Rd), Nontrivial: true}
		fail := func(sig, f string, a ...interface{}) ev.Outcome {
			out.Err, out.Sig = fmt.Errorf(f, a...), sig
			return out
		}
		baseG := primeGenGoroutines()
		ctx, cancel := context.WithTimeout(context.Background(), 20*time.Minute)
		defer cancel()
		var rd io.Reader = rand.Reader
		ir := &instrReader{base: rand.Reader}
		switch c.Rd {
		case "drbg":
			rd = newDRBG("preparams")
		case "cancel":
			ir.cancel, ir.cancelAt = cancel, 25
			rd = ir
		case "fail":
			ir.failAt = 25
			rd = ir
		}
		type res struct {
			pp  *keygen.LocalPreParams
			err error
		}
		ch := make(chan res, 1)
		go func() {
			pp, err := keygen.GeneratePreParamsWithContextAndRandom(ctx, rd, c.Conc)
			ch <- res{pp, err}
		}()
		var rs res
		select {
		case rs = <-ch:
		case <-time.After(25 * time.Minute):
			return fail("preparams-hang", "GeneratePreParamsWithContextAndRandom did not return")
		}
		if c.Rd == "cancel" || c.Rd == "fail" {
			if rs.err == nil {
				return fail("fault-ignored", "pre-parameter generation succeeded although the entropy source failed / the context was cancelled at read 25")
			}
			if left := waitNoPrimeGoroutines(baseG); left > baseG {
				return fail("goroutine-leak", "%d generator goroutine(s) alive after a failed pre-parameter generation", left-baseG)
			}
			return out
		}
		if rs.err != nil {
			return fail("preparams-error", "generation failed: %v", rs.err)
		}
		if left := waitNoPrimeGoroutines(baseG); left > baseG {
			return fail("goroutine-leak", "%d generator goroutine(s) alive after pre-parameter generation", left-baseG)
		}
		if err := checkPreParams(rs.pp); err != nil {
			return fail("preparams-structure", "%v", err)
		}
		return out
	})
}

func checkPreParams(pp *keygen.LocalPreParams) error {
	if pp == nil || !pp.ValidateWithProof() {
		return fmt.Errorf("ValidateWithProof is false")
	}
	sk := pp.PaillierSK
	if err := checkKeyStructure(sk, 2048); err != nil {
		return fmt.Errorf("Paillier key: %v", err)
	}
	p, q := pp.P, pp.Q
	P, Q := add(new(big.Int).Lsh(p, 1), 1), add(new(big.Int).Lsh(q, 1), 1)
	for _, v := range []*big.Int{p, q, P, Q} {
		if !v.ProbablyPrime(40) {
			return fmt.Errorf("ring-Pedersen factor structure: %v is not prime", v)
		}
	}
	if p.Cmp(q) == 0 {
		return fmt.Errorf("NTilde is a square")
	}
	NT := mul(P, Q)
	if NT.Cmp(pp.NTildei) != 0 {
		return fmt.Errorf("NTilde != (2p+1)(2q+1)")
	}
	if NT.BitLen() != 2048 {
		return fmt.Errorf("NTilde has %d bits", NT.BitLen())
	}
	if NT.Cmp(sk.N) == 0 || new(big.Int).GCD(nil, nil, NT, sk.N).Cmp(one) != 0 {
		return fmt.Errorf("NTilde is not independent of the Paillier modulus")
	}
	pq := mul(p, q)
	h1, h2 := pp.H1i, pp.H2i
	if h1.Cmp(one) <= 0 || h1.Cmp(NT) >= 0 || h2.Cmp(one) <= 0 || h2.Cmp(NT) >= 0 || h1.Cmp(h2) == 0 {
		return fmt.Errorf("h1/h2 out of range or equal")
	}
	if big.Jacobi(h1, NT) != 1 || new(big.Int).Exp(h1, pq, NT).Cmp(one) != 0 {
		return fmt.Errorf("h1 is not a square (h1^(pq) != 1)")
	}
	if new(big.Int).Exp(h2, pq, NT).Cmp(one) != 0 {
		return fmt.Errorf("h2 is not a square")
	}
	if new(big.Int).Exp(h1, pp.Alpha, NT).Cmp(h2) != 0 {
		return fmt.Errorf("h2 != h1^alpha")
	}
	if new(big.Int).Exp(h2, pp.Beta, NT).Cmp(h1) != 0 {
		return fmt.Errorf("h1 != h2^beta")
	}
	if mulMod(pp.Alpha, pp.Beta, pq).Cmp(one) != 0 {
		return fmt.Errorf("alpha*beta != 1 mod pq")
	}
	return nil
}

// ------------------------------------------------------------------------------------------------ samplers

type c19Sampler struct {
	Fn    string
	Bound H
	BC    string
}

func genC19Sampler(t *rapid.T) c19Sampler {
	c := c19Sampler{Fn: rapid.SampledFrom([]string{"positive", "positive", "coprime", "qnr", "qr-generator", "mustint", "prime"}).Draw(t, "fn")}
	c.BC = rapid.SampledFrom([]string{"tiny", "tiny", "prime", "prime-power", "pow2", "pow2-1", "pow2+1", "odd-composite", "2048bit", "vendored"}).Draw(t, "bclass")
	var b *big.Int
	switch c.BC {
	case "tiny":
		b = big.NewInt(int64(rapid.IntRange(1, 64).Draw(t, "b")))
	case "prime":
		b = big.NewInt(rapid.SampledFrom([]int64{2, 3, 5, 7, 11, 13, 251, 257, 65537, 2147483647}).Draw(t, "p"))
	case "prime-power":
		p := rapid.SampledFrom([]int64{3, 5, 7, 11}).Draw(t, "p")
		b = pow(big.NewInt(p), rapid.IntRange(2, 6).Draw(t, "e"))
	case "pow2":
		b = new(big.Int).Lsh(one, uint(rapid.IntRange(1, 300).Draw(t, "k")))
	case "pow2-1":
		b = add(new(big.Int).Lsh(one, uint(rapid.IntRange(2, 300).Draw(t, "k"))), -1)
	case "pow2+1":
		b = add(new(big.Int).Lsh(one, uint(rapid.IntRange(1, 300).Draw(t, "k"))), 1)
	case "odd-composite":
		b = mul(big.NewInt(int64(2*rapid.IntRange(1, 500).Draw(t, "a")+1)), big.NewInt(int64(2*rapid.IntRange(1, 500).Draw(t, "b")+1)))
	case "2048bit":
		b = add(drawBigBits(t, "big", 2047), 0)
		b.SetBit(b, 2047, 1)
	default:
		b = preParams()[rapid.IntRange(0, 4).Draw(t, "set")].NTildei
	}
	c.Bound = hx(b)
	return c
}

func isSquare(n *big.Int) bool {
	r := new(big.Int).Sqrt(n)
	return mul(r, r).Cmp(n) == 0
}

func runC19Sampler(c c19Sampler) ev.Outcome {
	b := c.Bound.Big()
	out := ev.Outcome{Label: fmt.Sprintf("sampler %s bound=%s", c.Fn, c.BC)}
	out.Nontrivial = b.Cmp(big.NewInt(3)) <= 0 || c.BC == "prime-power" || c.BC == "tiny"
	fail := func(sig, f string, a ...interface{}) ev.Outcome {
		out.Err, out.Sig = fmt.Errorf(f, a...), sig
		return out
	}
	reps := 20
	if b.BitLen() > 512 {
		reps = 3
	}
	var problem error
	okT, p := withDeadline(60*time.Second, func() {
		for i := 0; i < reps && problem == nil; i++ {
			switch c.Fn {
			case "positive":
				v := common.GetRandomPositiveInt(rand.Reader, b)
				if v == nil || v.Sign() < 0 || v.Cmp(b) >= 0 {
					problem = fmt.Errorf("GetRandomPositiveInt(%v) returned %v, outside [0,bound)", b, v)
				}
			case "coprime":
				if b.Cmp(two) < 0 {
					return // no admissible value exists for n < 2
				}
				v := common.GetRandomPositiveRelativelyPrimeInt(rand.Reader, b)
				if v == nil || v.Sign() <= 0 || v.Cmp(b) >= 0 || new(big.Int).GCD(nil, nil, v, b).Cmp(one) != 0 {
					problem = fmt.Errorf("GetRandomPositiveRelativelyPrimeInt(%v) returned %v", b, v)
				}
			case "qnr":
				if b.Bit(0) == 0 || b.Cmp(big.NewInt(3)) < 0 || isSquare(b) {
					return // Jacobi symbol -1 needs an odd non-square modulus >= 3
				}
				v := common.GetRandomQuadraticNonResidue(rand.Reader, b)
				if v == nil || v.Sign() < 0 || v.Cmp(b) >= 0 || big.Jacobi(v, b) != -1 {
					problem = fmt.Errorf("GetRandomQuadraticNonResidue(%v) returned %v", b, v)
				}
			case "qr-generator":
				if b.Cmp(two) < 0 {
					return
				}
				v := common.GetRandomGeneratorOfTheQuadraticResidue(rand.Reader, b)
				if v == nil || v.Sign() < 0 || v.Cmp(b) >= 0 {
					problem = fmt.Errorf("GetRandomGeneratorOfTheQuadraticResidue(%v) returned %v", b, v)
					return
				}
				if b.Bit(0) == 1 && b.Cmp(big.NewInt(3)) >= 0 && new(big.Int).GCD(nil, nil, v, b).Cmp(one) == 0 && big.Jacobi(v, b) != 1 {
					problem = fmt.Errorf("a 'square' with Jacobi symbol != 1 was returned for n=%v", b)
				}
			case "mustint":
				bits := b.BitLen()
				if bits > 5000 {
					return
				}
				v := common.MustGetRandomInt(rand.Reader, bits)
				if v.Sign() < 0 || v.BitLen() > bits {
					problem = fmt.Errorf("MustGetRandomInt(%d) returned %v", bits, v)
				}
			case "prime":
				bits := b.BitLen()
				if bits < 2 || bits > 600 {
					return
				}
				v := common.GetRandomPrimeInt(rand.Reader, bits)
				if v == nil || !v.ProbablyPrime(30) || v.BitLen() > bits {
					problem = fmt.Errorf("GetRandomPrimeInt(%d) returned %v", bits, v)
				}
			}
		}
	})
	if !okT {
		return fail("sampler-hang", "%s with bound %v did not return", c.Fn, b)
	}
	if p != nil {
		return fail("sampler-panic", "%s with bound %v panicked: %v", c.Fn, b, p)
	}
	if problem != nil {
		return fail("sampler-range", "%v", problem)
	}
	return out
}

// ---- GenerateNTildei (crypto/utils.go): builds a ring-Pedersen modulus from two caller-supplied primes ----

type c19NT struct {
	Slots [2]string // prime | safe | composite | one | zero | nil | even | square
	Seed  int
}

var c19Primes = []string{"b", "65", "10001", "fffffffb", "ffffffffffffffc5", "fffffffffffffffffffffffffffffffeffffffffffffffff"} // 11,101,65537,2^32-5,2^64-59,P-192

func c19Slot(cls string, seed int) *big.Int {
	p := func(i int) *big.Int { v, _ := new(big.Int).SetString(c19Primes[i%len(c19Primes)], 16); return v }
	switch cls {
	case "prime":
		return p(seed)
	case "safe":
		return big.NewInt([]int64{23, 47, 59, 83, 107, 167, 179, 227, 263, 347}[seed%10])
	case "composite":
		return mul(p(seed), p(seed+1))
	case "square":
		return mul(p(seed), p(seed))
	case "one":
		return big.NewInt(1)
	case "zero":
		return big.NewInt(0)
	case "even":
		return mul(two, p(seed+1))
	}
	return nil
}

func runC19NT(c c19NT) ev.Outcome {
	out := ev.Outcome{Label: fmt.Sprintf("ntilde-helper slots=%s/%s", c.Slots[0], c.Slots[1])}
	fail := func(sig, f string, a ...interface{}) ev.Outcome {
		out.Err, out.Sig = fmt.Errorf(f, a...), sig
		return out
	}
	a, b := c19Slot(c.Slots[0], c.Seed), c19Slot(c.Slots[1], c.Seed+3)
	good := func(s string) bool { return s == "prime" || s == "safe" }
	out.Nontrivial = good(c.Slots[0]) != good(c.Slots[1])
	var NT, h1, h2 *big.Int
	var err error
	okT, p := withDeadline(60*time.Second, func() { NT, h1, h2, err = crypto.GenerateNTildei(rand.Reader, [2]*big.Int{a, b}) })
	if !okT {
		return fail("ntilde-hang", "GenerateNTildei(%v,%v) did not return", a, b)
	}
	if p != nil {
		return fail("ntilde-panic", "GenerateNTildei(%v,%v) panicked: %v", a, b, p)
	}
	if !(good(c.Slots[0]) && good(c.Slots[1])) {
		if err == nil {
			return fail("ntilde-accepts-nonprime", "GenerateNTildei accepted factors %v (%s) and %v (%s) and returned NTilde=%v", a, c.Slots[0], b, c.Slots[1], NT)
		}
		return out
	}
	if err != nil {
		return fail("ntilde-refuses-primes", "GenerateNTildei(%v,%v): %v", a, b, err)
	}
	if NT == nil || NT.Cmp(mul(a, b)) != 0 {
		return fail("ntilde-value", "NTilde=%v is not the product of %v and %v", NT, a, b)
	}
	for _, h := range []*big.Int{h1, h2} {
		if h == nil || h.Sign() <= 0 || h.Cmp(NT) >= 0 || new(big.Int).GCD(nil, nil, h, NT).Cmp(one) != 0 {
			return fail("ntilde-h", "h=%v is not a unit in [1,NTilde) for NTilde=%v", h, NT)
		}
		if a.Cmp(b) != 0 && (big.Jacobi(h, a) != 1 || big.Jacobi(h, b) != 1) {
			return fail("ntilde-h", "h=%v is not a square modulo both factors of NTilde=%v", h, NT)
		}
	}
	return out
}

func TestC19NTildeHelper(t *testing.T) {
	r := ev.New(t, "C19")
	classes := []string{"prime", "safe", "composite", "square", "one", "zero", "even", "nil"}
	var cases []c19NT
	for i, x := range classes {
		for j, y := range classes {
			for sd := 0; sd < ev.Scale(3, 12); sd++ {
				cases = append(cases, c19NT{Slots: [2]string{x, y}, Seed: sd + i + 2*j})
			}
		}
	}
	ev.Each(t, r, cases, runC19NT)
	r.SetExhaustive(true)
}

func TestC19Samplers(t *testing.T) {
	r := ev.New(t, "C19")
	ev.Drive(t, r, genC19Sampler, runC19Sampler)
}

package props

// C14 — Paillier encryption is correct, additively homomorphic and domain-checked.

import (
	"context"
	"crypto/rand"
	"fmt"
	"math/big"
	"sync"
	"testing"
	"time"

	"github.com/bnb-chain/tss-lib/v2/crypto/paillier"
	"pgregory.net/rapid"

	"verif/harness/ev"
	"verif/harness/ref"
)

// small fresh keys, generated once per process per length
var (
	c14KeyMu sync.Mutex
	c14Keys  = map[int][]*paillier.PrivateKey{}
)

func isPrimeSmall(n int64) bool {
	if n < 2 {
		return false
	}
	for d := int64(2); d*d <= n; d++ {
		if n%d == 0 {
			return false
		}
	}
	return true
}

// admissibleSafePrimes enumerates all safe primes p of exactly `bits` bits with the top two bits set.
func admissibleSafePrimes(bits int) []int64 {
	var out []int64
	lo := int64(3) << uint(bits-2)
	hi := int64(1) << uint(bits)
	for p := lo | 1; p < hi; p += 2 {
		if isPrimeSmall(p) && isPrimeSmall((p-1)/2) {
			out = append(out, p)
		}
	}
	return out
}

// keyLenFeasible: does a pair of distinct admissible safe primes at the distance the generator wants exist?
func keyLenFeasible(modBits int) bool {
	ps := admissibleSafePrimes(modBits / 2)
	for _, a := range ps {
		for _, b := range ps {
			d := a - b
			if d < 0 {
				d = -d
			}
			if big.NewInt(d).BitLen() >= modBits/2-3 {
				return true
			}
		}
	}
	return false
}

func checkKeyStructure(sk *paillier.PrivateKey, modBits int) error {
	P, Q, N := sk.P, sk.Q, sk.N
	if P == nil || Q == nil || N == nil || sk.LambdaN == nil || sk.PhiN == nil {
		return fmt.Errorf("nil component in generated key")
	}
	if new(big.Int).Mul(P, Q).Cmp(N) != 0 {
		return fmt.Errorf("N != P*Q")
	}
	if sk.PublicKey.N.Cmp(N) != 0 {
		return fmt.Errorf("public N differs")
	}
	if N.BitLen() != modBits {
		return fmt.Errorf("modulus has %d bits, requested %d", N.BitLen(), modBits)
	}
	if P.Cmp(Q) == 0 {
		return fmt.Errorf("P == Q")
	}
	for _, v := range []*big.Int{P, Q} {
		if !v.ProbablyPrime(40) {
			return fmt.Errorf("factor %v is not prime", v)
		}
		h := new(big.Int).Rsh(v, 1)
		if !h.ProbablyPrime(40) {
			return fmt.Errorf("factor %v is not a safe prime", v)
		}
		if v.BitLen() != modBits/2 {
			return fmt.Errorf("factor has %d bits, want %d", v.BitLen(), modBits/2)
		}
	}
	d := new(big.Int).Sub(P, Q)
	d.Abs(d)
	if d.BitLen() < modBits/2-3 {
		return fmt.Errorf("|P-Q| has only %d bits", d.BitLen())
	}
	pm, qm := add(P, -1), add(Q, -1)
	phi := mul(pm, qm)
	if phi.Cmp(sk.PhiN) != 0 {
		return fmt.Errorf("PhiN != (P-1)(Q-1)")
	}
	g := new(big.Int).GCD(nil, nil, pm, qm)
	lcm := new(big.Int).Div(phi, g)
	if lcm.Cmp(sk.LambdaN) != 0 {
		return fmt.Errorf("LambdaN != lcm(P-1,Q-1)")
	}
	return nil
}

var errKeygenHang = fmt.Errorf("key generation did not return within the watchdog limit")

// genKeyWatchdog runs GenerateKeyPair under a generous wall-clock watchdog (a few hundred times the
// normal duration for the size).
func genKeyWatchdog(bits, conc int) (*paillier.PrivateKey, *paillier.PublicKey, error) {
	limit := 90 * time.Second
	if bits > 512 {
		limit = 15 * time.Minute
	}
	ctx, cancel := context.WithTimeout(context.Background(), limit)
	defer cancel()
	type res struct {
		sk  *paillier.PrivateKey
		pk  *paillier.PublicKey
		err error
	}
	ch := make(chan res, 1)
	go func() {
		sk, pk, err := paillier.GenerateKeyPair(ctx, rand.Reader, bits, conc)
		ch <- res{sk, pk, err}
	}()
	select {
	case r := <-ch:
		return r.sk, r.pk, r.err
	case <-time.After(limit + 30*time.Second):
		return nil, nil, errKeygenHang
	}
}

func c14Key(name string, idx int) (*paillier.PrivateKey, error) {
	if name == "vendored" {
		return preParams()[idx%5].PaillierSK, nil
	}
	var bits int
	fmt.Sscanf(name, "fresh%d", &bits)
	c14KeyMu.Lock()
	defer c14KeyMu.Unlock()
	pool := c14Keys[bits]
	want := 2
	if len(pool) < want {
		sk, _, err := genKeyWatchdog(bits, 1+idx%4)
		if err != nil {
			return nil, err
		}
		if err := checkKeyStructure(sk, bits); err != nil {
			return nil, fmt.Errorf("KEYSTRUCT: %v", err)
		}
		c14Keys[bits] = append(pool, sk)
		return sk, nil
	}
	return pool[idx%len(pool)], nil
}

type c14Case struct {
	Key    string
	KeyIdx int
	Op     string
	A, B   H // raw draws, reduced/interpreted per op
	Cls    string
}

var c14KeyNames = []string{"vendored", "vendored", "fresh32", "fresh64", "fresh128", "fresh256", "fresh512"}

func genC14(t *rapid.T) c14Case {
	c := c14Case{}
	c.Key = rapid.SampledFrom(c14KeyNames).Draw(t, "key")
	c.KeyIdx = rapid.IntRange(0, 4).Draw(t, "kidx")
	c.Op = rapid.SampledFrom([]string{"encdec", "encdec", "add", "add", "mult", "mult", "fresh", "unit", "steer-x",
		"refuse-m", "refuse-k", "refuse-c-mult", "refuse-c-add", "refuse-c-dec", "refuse-gcd"}).Draw(t, "op")
	c.Cls = rapid.SampledFrom([]string{"0", "1", "N-1", "rand", "rand", "wrap", "small"}).Draw(t, "cls")
	c.A = hx(drawBigBits(t, "a", 4200))
	c.B = hx(drawBigBits(t, "b", 4200))
	return c
}

func c14Pick(cls string, raw, N *big.Int) *big.Int {
	switch cls {
	case "0":
		return big.NewInt(0)
	case "1":
		return big.NewInt(1)
	case "N-1":
		return add(N, -1)
	case "wrap": // upper half so that sums/products wrap
		h := new(big.Int).Rsh(N, 1)
		v := new(big.Int).Mod(raw, h)
		return v.Add(v, h)
	case "small":
		return new(big.Int).Mod(raw, big.NewInt(1000))
	}
	return new(big.Int).Mod(raw, N)
}

func runC14(c c14Case) (out ev.Outcome) {
	out = ev.Outcome{Label: fmt.Sprintf("paillier key=%s op=%s cls=%s", c.Key, c.Op, c.Cls)}
	out.Nontrivial = c.Cls != "rand" || c.Op != "encdec" || c.Key != "vendored"
	fail := func(sig, f string, a ...interface{}) ev.Outcome {
		out.Err, out.Sig = fmt.Errorf(f, a...), sig
		return out
	}
	sk, err := c14Key(c.Key, c.KeyIdx)
	if err != nil {
		if len(err.Error()) > 10 && err.Error()[:10] == "KEYSTRUCT:" {
			return fail("key-structure", "generated key (%s) malformed: %v", c.Key, err)
		}
		if err == errKeygenHang {
			return fail("keygen-hang", "GenerateKeyPair(%s) did not return", c.Key)
		}
		return fail("keygen-error", "GenerateKeyPair(%s) failed: %v", c.Key, err)
	}
	pk := &sk.PublicKey
	N := sk.N
	N2 := mul(N, N)
	m1 := c14Pick(c.Cls, c.A.Big(), N)
	m2 := c14Pick(c.Cls, c.B.Big(), N)
	if c.Cls == "N-1" || c.Cls == "0" || c.Cls == "1" {
		m2 = new(big.Int).Mod(c.B.Big(), N)
	}
	dec := func(ct *big.Int) (*big.Int, error) {
		m, e := sk.Decrypt(ct)
		if e != nil {
			return nil, e
		}
		r, e2 := ref.PaillierDecryptCRT(ct, sk.P, sk.Q)
		if e2 != nil {
			return nil, fmt.Errorf("reference decryption failed: %v", e2)
		}
		if r.Cmp(m) != 0 {
			return nil, fmt.Errorf("Decrypt=%v but reference CRT decryption=%v", m, r)
		}
		return m, nil
	}
	isUnit := func(ct *big.Int) bool {
		return ct.Sign() >= 0 && ct.Cmp(N2) < 0 && new(big.Int).GCD(nil, nil, ct, N).Cmp(one) == 0
	}
	// every argument handed to the API must come back unchanged (a result may not alias or overwrite an operand)
	type snap struct {
		name string
		v    *big.Int
		was  *big.Int
	}
	var watched []snap
	watch := func(name string, v *big.Int) {
		if v != nil {
			watched = append(watched, snap{name, v, new(big.Int).Set(v)})
		}
	}
	watch("m1", m1)
	watch("m2", m2)
	defer func() {
		if out.Err != nil {
			return
		}
		for _, w := range watched {
			if w.v.Cmp(w.was) != 0 {
				out.Err, out.Sig = fmt.Errorf("%s: operand %s was modified by the call(s) it was passed to (was %v, now %v)", c.Op, w.name, w.was, w.v), "operand-modified"
				return
			}
		}
	}()
	switch c.Op {
	case "encdec", "fresh", "unit":
		c1, e := pk.Encrypt(rand.Reader, m1)
		if e != nil {
			return fail("encrypt-refused", "Encrypt refused m in [0,N): %v", e)
		}
		if !isUnit(c1) {
			return fail("not-unit", "ciphertext is not a unit modulo N^2 / out of range")
		}
		got, e := dec(c1)
		if e != nil || got.Cmp(m1) != 0 {
			return fail("roundtrip", "Dec(Enc(m)) = %v err=%v, want %v", got, e, m1)
		}
		c2, e := pk.Encrypt(rand.Reader, m1)
		if e != nil || c2.Cmp(c1) == 0 {
			return fail("not-fresh", "two encryptions of the same plaintext coincide (err=%v)", e)
		}
		cr, x, e := pk.EncryptAndReturnRandomness(rand.Reader, m1)
		if e != nil {
			return fail("encrypt-refused", "EncryptAndReturnRandomness: %v", e)
		}
		// c = (N+1)^m x^N mod N^2 recomputed independently
		want := new(big.Int).Exp(add(N, 1), m1, N2)
		want.Mul(want, new(big.Int).Exp(x, N, N2))
		want.Mod(want, N2)
		if want.Cmp(cr) != 0 || new(big.Int).GCD(nil, nil, x, N).Cmp(one) != 0 || x.Sign() <= 0 || x.Cmp(N) >= 0 {
			return fail("enc-formula", "ciphertext is not (N+1)^m x^N with the returned unit x")
		}
	case "steer-x":
		// the encryption randomness must be a unit modulo N: the first draw of the random source is forced to a
		// non-unit (0, P, Q, a multiple of P); the library has to draw again, and the result must be as good as ever
		k := (N.BitLen() + 7) / 8
		mult := new(big.Int).Mod(c.B.Big(), sk.Q)
		for _, x0 := range []*big.Int{big.NewInt(0), sk.P, sk.Q, new(big.Int).Mod(mul(sk.P, add(mult, 2)), N)} {
			rd := &prefixReader{prefix: x0.FillBytes(make([]byte, k)), rest: rand.Reader}
			ct, x, e := pk.EncryptAndReturnRandomness(rd, m1)
			if e != nil {
				return fail("encrypt-refused", "EncryptAndReturnRandomness refused m in [0,N): %v", e)
			}
			if x == nil || x.Sign() <= 0 || x.Cmp(N) >= 0 || new(big.Int).GCD(nil, nil, x, N).Cmp(one) != 0 {
				return fail("not-unit", "encryption randomness %v is not a unit modulo N (first draw of the source was the non-unit %v)", x, x0)
			}
			if !isUnit(ct) {
				return fail("not-unit", "ciphertext is not a unit modulo N^2 (first draw of the source was the non-unit %v)", x0)
			}
			got, e := dec(ct)
			if e != nil || got.Cmp(m1) != 0 {
				return fail("roundtrip", "Dec(Enc(m)) = %v err=%v, want %v (first draw of the source was a non-unit)", got, e, m1)
			}
		}
	case "add":
		c1, _ := pk.Encrypt(rand.Reader, m1)
		c2, _ := pk.Encrypt(rand.Reader, m2)
		watch("c1", c1)
		watch("c2", c2)
		s, e := pk.HomoAdd(c1, c2)
		if e != nil {
			return fail("homoadd-refused", "HomoAdd refused valid ciphertexts: %v", e)
		}
		if s == c1 || s == c2 {
			return fail("operand-modified", "HomoAdd returned one of its operands as the result object")
		}
		watch("sum", s)
		got, e := dec(s)
		want := new(big.Int).Add(m1, m2)
		want.Mod(want, N)
		if e != nil || got.Cmp(want) != 0 {
			return fail("homoadd", "Dec(HomoAdd) = %v err=%v want %v", got, e, want)
		}
		if !isUnit(s) {
			return fail("not-unit", "HomoAdd result not a unit")
		}
		// triple: associativity of the decrypted sums
		c3, _ := pk.Encrypt(rand.Reader, m2)
		s2, _ := pk.HomoAdd(s, c3)
		got2, e := dec(s2)
		want2 := new(big.Int).Add(want, m2)
		want2.Mod(want2, N)
		if e != nil || got2.Cmp(want2) != 0 {
			return fail("homoadd3", "triple sum decrypts to %v err=%v want %v", got2, e, want2)
		}
	case "mult":
		c1, _ := pk.Encrypt(rand.Reader, m1)
		watch("c1", c1)
		k := m2
		p, e := pk.HomoMult(k, c1)
		if e != nil {
			return fail("homomult-refused", "HomoMult refused valid input: %v", e)
		}
		if p == c1 || p == k {
			return fail("operand-modified", "HomoMult returned one of its operands as the result object")
		}
		want := new(big.Int).Mul(k, m1)
		want.Mod(want, N)
		if k.Sign() == 0 { // c^0 = 1 = Enc(0) with trivial randomness, still decrypts to 0
			want = big.NewInt(0)
		}
		got, e := dec(p)
		if e != nil || got.Cmp(want) != 0 {
			return fail("homomult", "Dec(HomoMult(k,c)) = %v err=%v want %v", got, e, want)
		}
	case "refuse-m":
		for _, bad := range []*big.Int{big.NewInt(-1), new(big.Int).Set(N), add(N, 1), new(big.Int).Add(N, m1), mul(N, N)} {
			if ct, e := pk.Encrypt(rand.Reader, bad); e == nil || ct != nil {
				return fail("refuse-m", "Encrypt accepted plaintext %v outside [0,N)", bad)
			}
		}
	case "refuse-k":
		c1, _ := pk.Encrypt(rand.Reader, m1)
		for _, bad := range []*big.Int{big.NewInt(-1), new(big.Int).Set(N), add(N, 1), new(big.Int).Add(N, m2)} {
			if v, e := pk.HomoMult(bad, c1); e == nil || v != nil {
				return fail("refuse-k", "HomoMult accepted scalar %v outside [0,N)", bad)
			}
		}
	case "refuse-c-mult":
		for _, bad := range []*big.Int{big.NewInt(-1), new(big.Int).Set(N2), add(N2, 1), new(big.Int).Add(N2, m1)} {
			if v, e := pk.HomoMult(m1, bad); e == nil || v != nil {
				return fail("refuse-c", "HomoMult accepted ciphertext outside [0,N^2)")
			}
		}
	case "refuse-c-add":
		c1, _ := pk.Encrypt(rand.Reader, m1)
		for _, bad := range []*big.Int{big.NewInt(-1), new(big.Int).Set(N2), add(N2, 1)} {
			if v, e := pk.HomoAdd(c1, bad); e == nil || v != nil {
				return fail("refuse-c", "HomoAdd accepted a second ciphertext outside [0,N^2)")
			}
			if v, e := pk.HomoAdd(bad, c1); e == nil || v != nil {
				return fail("refuse-c", "HomoAdd accepted a first ciphertext outside [0,N^2)")
			}
		}
	case "refuse-c-dec":
		for _, bad := range []*big.Int{big.NewInt(-1), new(big.Int).Set(N2), add(N2, 1), new(big.Int).Add(N2, m1)} {
			if v, e := sk.Decrypt(bad); e == nil || v != nil {
				return fail("refuse-c", "Decrypt accepted a ciphertext outside [0,N^2)")
			}
		}
	case "refuse-gcd":
		k := new(big.Int).Mod(c.B.Big(), sk.Q)
		if k.Sign() == 0 {
			k = big.NewInt(1)
		}
		for _, bad := range []*big.Int{big.NewInt(0), new(big.Int).Set(sk.P), new(big.Int).Set(sk.Q), new(big.Int).Set(N), mul(sk.P, k), mul(N, k)} {
			if bad.Cmp(N2) >= 0 {
				continue
			}
			if v, e := sk.Decrypt(bad); e == nil || v != nil {
				return fail("refuse-gcd", "Decrypt accepted a ciphertext sharing a factor with N")
			}
		}
	}
	return out
}

func TestC14Paillier(t *testing.T) {
	r := ev.New(t, "C14")
	ev.Drive(t, r, genC14, runC14)
}

// TestC14KeyGen generates fresh keys over the feasible small lengths and a few larger ones, with several
// concurrency levels, and checks their structure.
type c14KG struct {
	Bits, Conc int
}

func TestC14KeyGen(t *testing.T) {
	r := ev.New(t, "C14")
	var cases []c14KG
	// small lengths: every even length 12..72 whose feasibility the harness' own enumeration confirms
	// (enumeration is only affordable up to 20-bit primes; above that feasibility is certain), many keys each
	smallReps := ev.Scale(10, 40)
	for l := 12; l <= 72; l += 2 {
		if l <= 40 && !keyLenFeasible(l) {
			r.AddNote("infeasible_small_lengths_skipped", 1)
			continue
		}
		for rep := 0; rep < smallReps; rep++ {
			cases = append(cases, c14KG{Bits: l, Conc: 1 + (l/2+rep)%4})
		}
	}
	lens := []int{96, 128, 192, 256, 384, 512}
	reps := ev.Scale(1, 5)
	if ev.Tier() == "thorough" {
		lens = append(lens, 768, 1024)
	}
	for rep := 0; rep < reps; rep++ {
		for i, l := range lens {
			cases = append(cases, c14KG{Bits: l, Conc: 1 + (i+rep)%4})
		}
	}
	ev.Each(t, r, cases, func(c c14KG) ev.Outcome {
		out := ev.Outcome{Label: fmt.Sprintf("keygen bits=%d conc=%d", c.Bits, c.Conc), Nontrivial: true}
		sk, pk, err := genKeyWatchdog(c.Bits, c.Conc)
		if err == errKeygenHang {
			out.Err, out.Sig = fmt.Errorf("GenerateKeyPair(%d bits, concurrency %d) did not return", c.Bits, c.Conc), "keygen-hang"
			return out
		}
		if err != nil {
			out.Err, out.Sig = fmt.Errorf("GenerateKeyPair(%d) failed: %v", c.Bits, err), "keygen-error"
			return out
		}
		if e := checkKeyStructure(sk, c.Bits); e != nil {
			out.Err, out.Sig = e, "key-structure"
			return out
		}
		if pk.N.Cmp(sk.N) != 0 {
			out.Err, out.Sig = fmt.Errorf("returned public key differs from the private key's"), "key-structure"
			return out
		}
		// a quick functional check on the fresh key
		m := new(big.Int).Rsh(sk.N, 1)
		ct, e := pk.Encrypt(rand.Reader, m)
		if e != nil {
			out.Err, out.Sig = e, "encrypt-refused"
			return out
		}
		if got, e := sk.Decrypt(ct); e != nil || got.Cmp(m) != 0 {
			out.Err, out.Sig = fmt.Errorf("fresh key does not decrypt its own ciphertext"), "roundtrip"
		}
		return out
	})
}

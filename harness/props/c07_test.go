package props

// C07 — Outcome is independent of message delivery order; no deadlock, one result.
// C08 — Rounds, routing and channel discipline follow the protocol; WaitingFor is exact.
// Both are decided on the same simulated runs: C07 judges results / deadlock / message set, C08 is the
// per-step monitor (monitor_test.go).

import (
	"fmt"
	"math/big"
	"strings"
	"testing"

	"pgregory.net/rapid"

	"verif/harness/ev"
	"verif/harness/ref"
	"verif/harness/sim"
)

var allProtos = []string{"ecdsa-keygen", "ecdsa-signing", "ecdsa-resharing", "eddsa-keygen", "eddsa-signing", "eddsa-resharing"}
var edProtos = []string{"eddsa-keygen", "eddsa-signing", "eddsa-resharing"}

type c07Case struct {
	Run   protoRun
	Sched SchedSpec
}

// c07Sigs: monitor signals that are about the message set / routing / completion (C07's clause
// "sends the same set of protocol messages with the same routing").
func isC07Signal(sig string) bool {
	for _, p := range []string{"emit-missing", "emit-duplicate", "emit-recipients", "emit-flag", "emit-unknown-type", "emit-committee-flag", "finished-without-result"} {
		if strings.HasPrefix(sig, p) {
			return true
		}
	}
	return false
}

// runScheduled executes one run under a schedule with the monitor attached and returns the outcome for
// property prop ("C07" or "C08").
func runScheduled(prop string, c c07Case, mut func(x *runCtx, m *monitor)) ev.Outcome {
	x := c.Run.build()
	mon := newMonitor(c.Run.Proto, x.net)
	mon.Secrets = x.secrets
	if mut != nil {
		mut(x, mon)
	}
	c.Sched.apply(x.net)
	sched := c.Sched.Make()
	x.net.Run(sched, 100000)
	out := ev.Outcome{Label: fmt.Sprintf("%s sched=%s", c.Run, c.Sched.Class())}
	early, pre, dups := scheduleFeatures(x.net, mon)
	out.Nontrivial = early > 0 || pre > 0 || dups > 0
	if out.Nontrivial {
		out.Label += fmt.Sprintf(" early=%v pre=%v dup=%v", early > 0, pre > 0, dups > 0)
	}
	prob := x.judge()
	// shares that only exist at the end (keygen, new resharing members) are long-term secrets too
	for i, nd := range x.net.Nodes {
		if len(nd.ECKeys) > 0 && nd.ECKeys[0].Xi != nil {
			mon.Secrets[i] = append(mon.Secrets[i], secretBytes(nd.ECKeys[0].Xi)...)
		}
		if len(nd.EDKeys) > 0 && nd.EDKeys[0].Xi != nil {
			mon.Secrets[i] = append(mon.Secrets[i], secretBytes(nd.EDKeys[0].Xi)...)
		}
	}
	mon.Finish(prob == nil)
	if prob != nil {
		out.Err = fmt.Errorf("%s: %s", c.Run, prob.msg)
		out.Sig = prob.sig + ":" + c.Run.Proto
		if prob.sig == "deadlock" && pre > 0 {
			out.Sig = "deadlock-prestart:" + c.Run.Proto
		}
		return out
	}
	for _, v := range mon.viol {
		if prop == "C07" && !isC07Signal(v.Sig) {
			continue
		}
		out.Err = fmt.Errorf("%s: %s", c.Run, v.Msg)
		out.Sig = v.Sig
		return out
	}
	return out
}

// scheduleFeatures measures what the executed schedule contained: early (future-round) arrivals,
// pre-Start arrivals, duplicates.
func scheduleFeatures(net *sim.Net, mon *monitor) (early, pre, dups int) {
	for _, d := range net.Done {
		if d.Count > 1 {
			dups++
		}
	}
	pre = preStartDeliveries(net)
	early = mon.earlyArrivals
	return
}

func preStartDeliveries(net *sim.Net) int { return net.PreStart }

func genC07(protos []string, scheds []string) func(t *rapid.T) c07Case {
	return func(t *rapid.T) c07Case {
		c := c07Case{Run: genProtoRun(t, protos)}
		n := len(c.Run.Members) + len(c.Run.NewKeys)
		if n == 0 {
			n = c.Run.Key.N
		}
		c.Sched = genSched(t, n, scheds)
		return c
	}
}

func TestC07RandomEdDSA(t *testing.T) {
	r := ev.New(t, "C07")
	ev.Drive(t, r, genC07(edProtos, schedAll), func(c c07Case) ev.Outcome { return runScheduled("C07", c, nil) })
}

func TestC07RandomECDSA(t *testing.T) {
	r := ev.New(t, "C07")
	ev.Drive(t, r, genC07([]string{"ecdsa-keygen", "ecdsa-signing", "ecdsa-resharing"}, schedAll), func(c c07Case) ev.Outcome { return runScheduled("C07", c, nil) })
}

// fixed small configurations for the directed and exhaustive parts
func fixedRun(proto string, n, t int, extra int) protoRun {
	edd := proto[:5] == "eddsa"
	q := ref.Secp.N
	if edd {
		q = ref.Ed.L
	}
	p := protoRun{Proto: proto}
	switch proto {
	case "ecdsa-keygen", "eddsa-keygen":
		p.Key = keyChoice{Src: "keygen", N: n, T: t, Pattern: "near-q"}
		p.Keys = hxs(detPartyKeys("near-q", n, q, fmt.Sprintf("fixed/%s/%d", proto, n)))
	case "ecdsa-signing", "eddsa-signing":
		p.Key = keyChoice{Src: "dealer", N: n, T: t, Pattern: "random256", Seed: "0"}
		p.Members = seq(n)[:t+1+extra]
		p.Msg = hx(new(big.Int).Lsh(big.NewInt(0x4242), 100))
	default:
		p.Key = keyChoice{Src: "dealer", N: n, T: t, Pattern: "random256", Seed: "0"}
		p.Members = seq(n)[:t+1]
		nn := 2 + extra
		p.NewKeys = hxs(detPartyKeys("small", nn, q, "fixednew"))
		p.NewT = 1
		p.Proofs = !edd
	}
	return p
}

// TestC07Directed: every directed strategy on all six protocols.
func TestC07Directed(t *testing.T) {
	r := ev.New(t, "C07")
	var cases []c07Case
	shard, shards := ev.Shard()
	k := 0
	for _, proto := range allProtos {
		cfgs := [][3]int{{3, 1, 0}, {3, 1, 1}}
		if ev.Tier() == "thorough" {
			cfgs = append(cfgs, [3]int{4, 2, 1}, [3]int{5, 2, 2}, [3]int{2, 1, 0})
		}
		for _, cf := range cfgs {
			run := fixedRun(proto, cf[0], cf[1], cf[2])
			nn := len(run.Members) + len(run.NewKeys)
			if nn == 0 {
				nn = run.Key.N
			}
			specs := []SchedSpec{{Kind: "fifo"}, {Kind: "lifo"}, {Kind: "dupall"}, {Kind: "lifo", Parsed: 100}}
			for p := 0; p < nn; p++ {
				specs = append(specs, SchedSpec{Kind: "starve", P: p}, SchedSpec{Kind: "prestart", P: p})
			}
			for _, rounds := range []int{1, 2, 3} { // a duplicate of every delivery, about `rounds` rounds late
				specs = append(specs, SchedSpec{Kind: "duplate", P: rounds * nn * (nn - 1)})
			}
			// one message arbitrarily late: for every message type and every link it travels on, that copy is
			// held back until nothing else can be delivered (first configuration: every link; others: one link per type)
			pre := run.build()
			pre.net.Run(sim.FIFO{}, 200000)
			seenLink := map[string]bool{}
			perType := map[string]int{}
			for _, e := range pre.net.Emits {
				for _, to := range sim.ResolveDests(pre.net, e.From, e.Msg) {
					lk := fmt.Sprintf("%s/%d/%d", e.Type, e.From, to)
					if seenLink[lk] {
						continue
					}
					seenLink[lk] = true
					perType[e.Type]++
					if cf != cfgs[0] && perType[e.Type] != 1+int(ev.Seed())%2 {
						continue
					}
					specs = append(specs, SchedSpec{Kind: "holdmsg", HoldType: e.Type, HoldFrom: e.From, HoldTo: to})
				}
			}
			for _, s := range specs {
				k++
				if k%shards != shard {
					continue
				}
				cases = append(cases, c07Case{Run: run, Sched: s})
			}
		}
	}
	ev.Each(t, r, cases, func(c c07Case) ev.Outcome { return runScheduled("C07", c, nil) })
}

// ------------------------------------------------------------------------------------------------
// exhaustive focus-party enumeration (EdDSA): every order in which the focus party can consume its
// inbox (and every position of its Start in that order); the other parties are served eagerly FIFO.

type c07Path struct {
	Run   protoRun
	Focus int
	Path  []int
}

// execFocus runs one path; it returns the number of options seen at each decision point.
func execFocus(prop string, c c07Path) (ev.Outcome, []int) {
	x := c.Run.build()
	mon := newMonitor(c.Run.Proto, x.net)
	mon.Secrets = x.secrets
	net := x.net
	var width []int
	depth := 0
	for steps := 0; steps < 100000; steps++ {
		// serve everybody else eagerly
		progressed := true
		for progressed {
			progressed = false
			for _, u := range net.Unstarted() {
				if u != c.Focus {
					net.Start(u)
					progressed = true
				}
			}
			for k := 0; k < len(net.Pending); k++ {
				if net.Pending[k].To != c.Focus {
					net.Deliver(k)
					progressed = true
					k--
				}
			}
		}
		// options of the focus party
		var opts []int // -1 = Start, else index into Pending
		if !net.Nodes[c.Focus].Started {
			opts = append(opts, -1)
		}
		for k, d := range net.Pending {
			if d.To == c.Focus {
				opts = append(opts, k)
			}
		}
		if len(opts) == 0 {
			break
		}
		ch := 0
		if depth < len(c.Path) {
			ch = c.Path[depth]
		}
		if ch >= len(opts) {
			ch = len(opts) - 1
		}
		width = append(width, len(opts))
		depth++
		if opts[ch] == -1 {
			net.Start(c.Focus)
		} else {
			net.Deliver(opts[ch])
		}
	}
	out := ev.Outcome{Label: fmt.Sprintf("focus-enum %s focus=%d(%s)", c.Run, c.Focus, net.Nodes[c.Focus].Role)}
	early, pre, _ := scheduleFeatures(net, mon)
	out.Nontrivial = early > 0 || pre > 0
	if out.Nontrivial {
		out.Label += fmt.Sprintf(" early=%v pre=%v order=%x", early > 0, pre > 0, c.Path)
	}
	prob := x.judge()
	mon.Finish(prob == nil)
	if prob != nil {
		out.Err = fmt.Errorf("%s focus %d path %v: %s", c.Run, c.Focus, c.Path, prob.msg)
		out.Sig = prob.sig + ":" + c.Run.Proto
		if prob.sig == "deadlock" && pre > 0 {
			out.Sig = "deadlock-prestart:" + c.Run.Proto
		}
		return out, width
	}
	for _, v := range mon.viol {
		if prop == "C07" && !isC07Signal(v.Sig) {
			continue
		}
		out.Err = fmt.Errorf("%s focus %d path %v: %s", c.Run, c.Focus, c.Path, v.Msg)
		out.Sig = v.Sig
		break
	}
	return out, width
}

func enumFocus(t *testing.T, r *ev.Recorder, prop string, run protoRun, focus int, maxLeaves int) (leaves int, complete bool) {
	test := t.Name()
	path := []int{}
	failures := 0
	for {
		c := c07Path{Run: run, Focus: focus, Path: append([]int{}, path...)}
		r.Journal(test, c)
		out, width := execFocus(prop, c)
		full := make([]int, len(width))
		copy(full, path)
		c.Path = full
		r.Count(out.Label, out.Nontrivial, c)
		leaves++
		if out.Err != nil {
			if f, ok := ev.KnownOpen(r.Property, out.Sig); ok {
				r.KnownHit(f.ID)
			} else {
				p := r.Violation(test, out.Sig, out.Err.Error(), c)
				fmt.Printf("VERIF-VIOLATION property=%s test=%s sig=%q replay=%s :: %v\n", r.Property, test, out.Sig, p, out.Err)
				failures++
				if failures >= 3 {
					t.Fatalf("%d violating schedules", failures)
				}
			}
		}
		// odometer: advance to the next path
		i := len(full) - 1
		for ; i >= 0; i-- {
			if full[i]+1 < width[i] {
				break
			}
		}
		if i < 0 {
			if failures > 0 {
				t.Fatalf("%d violating schedules", failures)
			}
			return leaves, true
		}
		path = append(full[:i:i], full[i]+1)
		if leaves >= maxLeaves {
			if failures > 0 {
				t.Fatalf("%d violating schedules", failures)
			}
			return leaves, false
		}
	}
}

type c07Enum struct {
	Proto string
	N, T  int
	Extra int
}

func runEnum(t *testing.T, prop string) {
	r := ev.New(t, prop)
	if rf, ok := ev.Replaying(); ok {
		if rf.Test != t.Name() {
			t.Skip()
		}
		ev.Each(t, r, []c07Path{}, func(c c07Path) ev.Outcome { o, _ := execFocus(prop, c); return o })
		return
	}
	cfgs := []c07Enum{{"eddsa-keygen", 2, 1, 0}, {"eddsa-signing", 2, 1, 0}, {"eddsa-resharing", 2, 1, 0}, {"eddsa-keygen", 3, 1, 0}, {"eddsa-signing", 3, 1, 1}}
	maxLeaves := ev.EnvInt("VERIF_MAXLEAVES", 400)
	if ev.Tier() == "thorough" {
		cfgs = append(cfgs, c07Enum{"eddsa-resharing", 2, 1, 1}, c07Enum{"eddsa-keygen", 3, 2, 0})
		maxLeaves = ev.EnvInt("VERIF_MAXLEAVES", 6000)
	}
	shard, shards := ev.Shard()
	k := 0
	allComplete := true
	for _, cf := range cfgs {
		run := fixedRun(cf.Proto, cf.N, cf.T, cf.Extra)
		nn := len(run.Members) + len(run.NewKeys)
		if nn == 0 {
			nn = run.Key.N
		}
		for focus := 0; focus < nn; focus++ {
			k++
			if k%shards != shard {
				continue
			}
			leaves, complete := enumFocus(t, r, prop, run, focus, maxLeaves)
			r.Note(fmt.Sprintf("enum %s n=%d focus=%d", cf.Proto, cf.N, focus), fmt.Sprintf("%d schedules, complete=%v", leaves, complete))
			if !complete {
				allComplete = false
			}
		}
	}
	r.SetExhaustive(allComplete)
}

func TestC07ExhaustiveInbox(t *testing.T) { runEnum(t, "C07") }

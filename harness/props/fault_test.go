package props

// Fault machinery shared by C05 (misbehaving peer: outputs stay good, blame is right) and C06 (b)
// (no network input crashes a party): one deviating participant alters one value of one message.

import (
	"crypto/rand"
	"fmt"
	"math/big"
	"sort"
	"strings"

	"github.com/bnb-chain/tss-lib/v2/common"
	"github.com/bnb-chain/tss-lib/v2/crypto"
	"github.com/bnb-chain/tss-lib/v2/crypto/mta"
	"github.com/bnb-chain/tss-lib/v2/crypto/schnorr"
	eckeygen "github.com/bnb-chain/tss-lib/v2/ecdsa/keygen"
	ecsigning "github.com/bnb-chain/tss-lib/v2/ecdsa/signing"

	"github.com/bnb-chain/tss-lib/v2/tss"
	"google.golang.org/protobuf/reflect/protoreflect"

	"verif/harness/ev"
	"verif/harness/sim"
)

type faultSpec struct {
	Deviator int
	MsgType  string
	Field    fieldRef // Name "*" = whole message
	Kind     string
	Recip    int // p2p: the recipient whose copy is altered; -1: all copies (broadcast)
	Salt     int
	// coordinated commit/reveal deviation (Kind "commit:<variant>"): MsgType/Field name the commitment,
	// Reveal/RevealField the later message that opens it; Arity is the number of committed values.
	Reveal      string `json:",omitempty"`
	RevealField string `json:",omitempty"`
	Arity       int    `json:",omitempty"`
	// All: every sender's message of this type towards the victim Recip is altered (several faulty peers at once);
	// Deviator then only names one of them.
	All bool `json:",omitempty"`
}

type faultCase struct {
	Run protoRun
	F   faultSpec
}

func shortType(t string) string {
	if i := strings.LastIndex(t, "."); i >= 0 {
		parts := strings.Split(t, ".")
		if len(parts) >= 3 {
			return parts[len(parts)-3] + "." + parts[len(parts)-2] + "." + parts[len(parts)-1]
		}
		return t[i+1:]
	}
	return t
}

// coveredField: is a value covered by a commitment opening, a Feldman share check or a zero-knowledge
// proof, so that altering it must lead to an abort blaming exactly the deviator (DESIGN.md appendix B)?
func coveredField(typ, field string) bool {
	return coveredFieldKind(typ, field, "")
}

// coveredFieldKind: as coveredField, for a given alteration kind. A coordinated commit/reveal deviation
// opens its commitment correctly; it is attributable only where a proof or share check is attached to
// the committed values. The U_i/T_i commitments of ECDSA signing rounds 7/8 have none (GG18 phase 5
// checks only the aggregate U == T, and blames nobody / itself).
func coveredFieldKind(typ, field, kind string) bool {
	if strings.HasPrefix(kind, "commit:") && strings.HasSuffix(typ, "SignRound7Message") {
		return false
	}
	switch field {
	case "commitment", "v_commitment", "de_commitment", "v_decommitment", "share",
		"dlnproof_1", "dlnproof_2", "modProof", "facProof", "paillier_proof",
		"range_proof_alice", "proof_bob", "proof_bob_wc",
		"proof_alpha_x", "proof_alpha_y", "proof_t", "v_proof_alpha_x", "v_proof_alpha_y", "v_proof_t", "v_proof_u",
		"paillier_n", "n_tilde", "h1", "h2", "c", "c1", "c2":
		return true
	}
	return false
}

// negField: fields holding a scalar modulo the group order, or the point coordinate that changes sign when
// the point is negated (y on secp256k1, x on edwards25519); "neg" replaces the value by its negative.
func negField(run protoRun, name string) bool {
	switch name {
	case "share", "proof_t", "v_proof_t", "v_proof_u":
		return true
	case "proof_alpha_y", "v_proof_alpha_y":
		return !run.edd()
	case "proof_alpha_x", "v_proof_alpha_x":
		return run.edd()
	}
	return false
}

type faultRun struct {
	redealPoly []*big.Int // the polynomial the deviator deals instead of its own (coordinated strategy)
	redealCmt  *cmtPair
	commitD    []*big.Int // decommitment the deviator will reveal (coordinated strategy)
	x          *runCtx
	c          faultCase
	held       []*sim.Delivery
	cache      map[*sim.Emit][]byte
	applied    int
	consumed   int
	na         bool // not applicable (e.g. no other party's value exists)
	devN       *big.Int
	targetSeq  map[*sim.Emit]bool
}

// otherEmit: the corresponding message of an honest party (same type; for p2p preferably to the same recipient).
func (fr *faultRun) otherEmit(d *sim.Delivery) *sim.Emit {
	var fallback *sim.Emit
	for _, e := range fr.x.net.Emits {
		if e.From == d.E.From || e.Type != d.E.Type {
			continue
		}
		if !e.Bcast {
			if len(e.To) == 1 && e.To[0] == d.To {
				return e
			}
			if fallback == nil {
				fallback = e
			}
			continue
		}
		return e
	}
	return fallback
}

func (fr *faultRun) needsOther() bool {
	k := fr.c.F.Kind
	return k == "other" || k == "mirror"
}

// alter computes the tampered wire bytes for delivery d (ok=false: cannot be computed yet).
func (fr *faultRun) alter(d *sim.Delivery) ([]byte, bool) {
	f := fr.c.F
	var oe *sim.Emit
	if fr.needsOther() {
		oe = fr.otherEmit(d)
		if oe == nil {
			return nil, false
		}
	}
	cacheable := d.E.Bcast && !(fr.needsOther() && false)
	if cacheable {
		if b, ok := fr.cache[d.E]; ok {
			return b, true
		}
	}
	if f.Kind == "mirror" {
		if cacheable {
			fr.cache[d.E] = oe.Bytes
		}
		return oe.Bytes, true
	}
	cv := fr.x.cv
	if strings.HasPrefix(f.Kind, "commit:") {
		return fr.alterCommitReveal(d)
	}
	if strings.HasPrefix(f.Kind, "mta-") {
		return fr.alterMtA(d)
	}
	if strings.HasPrefix(f.Kind, "redeal:") {
		return fr.alterRedeal(d)
	}
	if f.Kind == "rand-all-fields" { // every field of the message replaced by random bytes of the same length
		_, refs, _, err := listFields(d.E.Bytes)
		if err != nil || len(refs) == 0 {
			fr.na = true
			return d.E.Bytes, true
		}
		out, err := rewriteWire(d.E.Bytes, func(m protoreflect.Message) {
			for _, ref := range refs {
				nv := make([]byte, len(getField(m, ref)))
				if len(nv) == 0 {
					nv = make([]byte, 1)
				}
				rand.Read(nv)
				if nv[0] == 0 {
					nv[0] = 1
				}
				setField(m, ref, nv)
			}
		})
		if err != nil {
			return nil, false
		}
		if cacheable {
			fr.cache[d.E] = out
		}
		return out, true
	}
	var sumOthers *big.Int
	if f.Kind == "sum-zero" { // a rushing deviator: its value cancels the sum of everybody else's
		sumOthers = new(big.Int)
		cnt := 0
		for _, e := range fr.x.net.Emits {
			if e.From != f.Deviator && e.Type == d.E.Type {
				sumOthers.Add(sumOthers, new(big.Int).SetBytes(readField(e.Bytes, f.Field)))
				cnt++
			}
		}
		if cnt < len(fr.x.net.Nodes)-1 {
			return nil, false
		}
	}
	out, err := rewriteWire(d.E.Bytes, func(m protoreflect.Message) {
		cur := getField(m, f.Field)
		honest := new(big.Int).SetBytes(cur)
		var nv []byte
		switch f.Kind {
		case "+1":
			nv = add(honest, 1).Bytes()
		case "rand":
			nv = make([]byte, len(cur))
			if len(nv) == 0 {
				nv = make([]byte, 1)
			}
			rand.Read(nv)
			if nv[0] == 0 {
				nv[0] = 1
			}
			if new(big.Int).SetBytes(nv).Cmp(honest) == 0 {
				nv[len(nv)-1] ^= 1
			}
		case "point-other": // (name_x, name_y) := another valid point
			pt := crypto.ScalarBaseMult(cv.EC, big.NewInt(int64(424242+f.Salt)))
			setField(m, fieldRef{strings.TrimSuffix(f.Field.Name, "_x") + "_y", -1}, pt.Y().Bytes())
			nv = pt.X().Bytes()
		case "neg": // the negated scalar (q - v) or point (the coordinate whose sign flips under negation)
			mod := cv.Q
			if strings.HasSuffix(f.Field.Name, "_x") || strings.HasSuffix(f.Field.Name, "_y") {
				mod = cv.P
			}
			v := new(big.Int).Sub(mod, new(big.Int).Mod(honest, mod))
			nv = v.Bytes()
		case "other":
			nv = readField(oe.Bytes, f.Field)
			if nv == nil {
				nv = []byte{}
			}
		case "sum-zero":
			v := new(big.Int).Neg(sumOthers)
			v.Mod(v, cv.Q)
			if v.Sign() == 0 {
				v = big.NewInt(1)
			}
			nv = v.Bytes()
		case "bits-2047": // an under-sized modulus (one bit short), odd
			v := new(big.Int).Rsh(honest, 1)
			v.SetBit(v, 0, 1)
			nv = v.Bytes()
		case "bits-1024":
			v := new(big.Int).Rsh(honest, uint(honest.BitLen()/2))
			v.SetBit(v, 0, 1)
			nv = v.Bytes()
		case "remove":
			removeField(m, f.Field)
			return
		case "append":
			appendField(m, f.Field.Name, []byte{1})
			return
		case "empty-list":
			fd := m.Descriptor().Fields().ByName(protoreflect.Name(f.Field.Name))
			if fd != nil && fd.IsList() {
				m.Mutable(fd).List().Truncate(0)
			}
			return
		case "dln-repartition": // a serialised DLN proof with both length prefixes changed consistently (127 / 129)
			fd := m.Descriptor().Fields().ByName(protoreflect.Name(f.Field.Name))
			if fd == nil || !fd.IsList() || m.Get(fd).List().Len() != 258 {
				fr.na = true
				return
			}
			l := m.Mutable(fd).List()
			var vals [][]byte
			for i := 0; i < 258; i++ {
				if i != 0 && i != 129 {
					vals = append(vals, append([]byte{}, l.Get(i).Bytes()...))
				}
			}
			k := 127 + 2*(f.Salt%2)
			l.Truncate(0)
			l.Append(protoreflect.ValueOfBytes([]byte{byte(k)}))
			for _, v := range vals[:k] {
				l.Append(protoreflect.ValueOfBytes(v))
			}
			l.Append(protoreflect.ValueOfBytes([]byte{byte(256 - k)}))
			for _, v := range vals[k:] {
				l.Append(protoreflect.ValueOfBytes(v))
			}
			return
		case "keep-one":
			fd := m.Descriptor().Fields().ByName(protoreflect.Name(f.Field.Name))
			if fd != nil && fd.IsList() {
				m.Mutable(fd).List().Truncate(1)
			}
			return
		default: // boundary value classes (C06)
			N := fr.devN
			if N == nil {
				N = new(big.Int).Lsh(one, 2047)
			}
			v := c06Value(f.Kind, honest, honest, cv, N, N, new(big.Int).Lsh(one, 1023), big.NewInt(int64(f.Salt)+7))
			if v.Sign() == 0 {
				nv = []byte{0} // zero as one zero byte (an empty field would fail the basic validation)
			} else {
				nv = v.Bytes()
			}
		}
		setField(m, f.Field, nv)
	})
	if err != nil {
		return nil, false
	}
	if string(out) == string(d.E.Bytes) {
		fr.na = true // the "alteration" left the message unchanged (e.g. the other party's value is the same)
	}
	if cacheable {
		fr.cache[d.E] = out
	}
	return out, true
}

func (fr *faultRun) install() {
	net := fr.x.net
	f := fr.c.F
	fr.cache = map[*sim.Emit][]byte{}
	match := func(d *sim.Delivery) bool {
		if f.All {
			return d.E.Type == f.MsgType && d.To == f.Recip
		}
		if d.E.From != f.Deviator {
			return false
		}
		if strings.HasPrefix(f.Kind, "redeal:") {
			return strings.HasSuffix(d.E.Type, "KGRound1Message") || strings.HasSuffix(d.E.Type, "KGRound2Message1") || strings.HasSuffix(d.E.Type, "KGRound2Message2") || strings.HasSuffix(d.E.Type, "ecdsa.keygen.KGRound3Message")
		}
		if f.Reveal != "" && d.E.Type == f.Reveal {
			return true
		}
		if d.E.Type != f.MsgType {
			return false
		}
		return d.E.Bcast || f.Recip < 0 || d.To == f.Recip
	}
	if strings.HasPrefix(f.Kind, "late") {
		// the honest copy is delivered as it is; an altered SECOND version of the same message (+1 on the field)
		// follows after f.Arity further deliveries (a deviator that re-sends something else later)
		type lateItem struct {
			d    *sim.Delivery
			left int
		}
		var waiting []*lateItem
		shadow := *fr
		shadow.c.F.Kind = "+1"
		shadow.cache = map[*sim.Emit][]byte{}
		net.OnCreate = func(d *sim.Delivery) bool {
			if d.Tag == "" && match(d) {
				waiting = append(waiting, &lateItem{d, f.Arity})
			}
			return true
		}
		prev := net.AfterStep
		net.AfterStep = func(s sim.Step) {
			if s.D != nil && s.D.Tag == "tampered" && s.Kind == sim.StepDeliver {
				fr.consumed++
			}
			if s.Kind == sim.StepDeliver && (s.D == nil || s.D.Tag != "tampered") {
				var still []*lateItem
				for _, it := range waiting {
					if it.d.Count == 0 { // the honest copy has not been delivered yet
						still = append(still, it)
						continue
					}
					it.left--
					if it.left > 0 {
						still = append(still, it)
						continue
					}
					if b, ok := shadow.alter(it.d); ok && !shadow.na {
						net.Inject(&sim.Delivery{E: it.d.E, To: it.d.To, From: it.d.From, Bytes: b, Bcast: it.d.Bcast, Tag: "tampered"})
						fr.applied++
					}
				}
				waiting = still
			}
			if prev != nil {
				prev(s)
			}
		}
		return
	}
	net.OnCreate = func(d *sim.Delivery) bool {
		if !match(d) {
			return true
		}
		b, ok := fr.alter(d)
		if !ok {
			fr.held = append(fr.held, d)
			return false
		}
		d.Bytes, d.Parsed, d.Tag = b, nil, "tampered"
		fr.applied++
		return true
	}
	prev := net.AfterStep
	net.AfterStep = func(s sim.Step) {
		if s.D != nil && s.D.Tag == "tampered" && s.Kind == sim.StepDeliver {
			fr.consumed++
		}
		if len(fr.held) > 0 {
			var still []*sim.Delivery
			for _, d := range fr.held {
				if b, ok := fr.alter(d); ok {
					d.Bytes, d.Parsed, d.Tag = b, nil, "tampered"
					fr.applied++
					net.Pending = append(net.Pending, d)
				} else {
					still = append(still, d)
				}
			}
			fr.held = still
		}
		if prev != nil {
			prev(s)
		}
	}
}

func culpritNodes(net *sim.Net, err *tss.Error) []int {
	var out []int
	for _, c := range err.Culprits() {
		found := -1
		for _, nd := range net.Nodes {
			if nd.ID == c {
				found = nd.Idx
			}
		}
		if found < 0 && c != nil {
			for _, nd := range net.Nodes {
				if nd.ID.KeyInt().Cmp(c.KeyInt()) == 0 {
					found = nd.Idx
				}
			}
		}
		out = append(out, found)
	}
	sort.Ints(out)
	// a set: the same party may be named by several sub-checks of one round
	var uniq []int
	for i, v := range out {
		if i == 0 || v != out[i-1] {
			uniq = append(uniq, v)
		}
	}
	return uniq
}

// judgeHonest applies C05's clauses to the honest parties' view at quiescence.
func judgeHonest(x *runCtx, dev int, covered bool, mode string) *runProblem {
	if mode == "C06" {
		// C06 only asks that every call returns and nothing panics (both are detected before we get here);
		// what a run produces under boundary values / routing faults is C05's subject, not C06's
		return nil
	}
	net := x.net
	p := x.p
	honest := map[int]bool{}
	for _, nd := range net.Nodes {
		if nd.Idx != dev {
			honest[nd.Idx] = true
		}
	}
	// (2) outputs of honest parties
	switch p.Proto {
	case "ecdsa-signing", "eddsa-signing":
		var first []byte
		for _, nd := range net.Nodes {
			if !honest[nd.Idx] {
				continue
			}
			if len(nd.Sigs) > 1 {
				return &runProblem{"multi-result", fmt.Sprintf("honest signer %d emitted %d signatures", nd.Idx, len(nd.Sigs))}
			}
			for _, s := range nd.Sigs {
				var err error
				if p.edd() {
					err = checkEdDSASig(s, x.pubX, x.pubY, x.digest.Bytes())
				} else {
					err = checkECDSASig(s, x.pubX, x.pubY, x.digest, -1)
				}
				if err != nil {
					return &runProblem{"bad-signature", fmt.Sprintf("honest signer %d output a signature that fails verification: %v", nd.Idx, err)}
				}
				if first == nil {
					first = s.Signature
				} else if string(first) != string(s.Signature) {
					return &runProblem{"differ", "honest signers output different signatures"}
				}
			}
		}
	case "ecdsa-keygen", "eddsa-keygen":
		views, ecs := x.outputViews(net.Nodes)
		if dev >= 0 {
			views[dev], ecs[dev] = nil, nil
		}
		have := 0
		for _, v := range views {
			if v != nil {
				have++
			}
		}
		if have > 0 {
			if err := checkSharing(x.cv, views, x.ids.Keys(), x.t, nil); err != nil {
				return &runProblem{"bad-keydata", "honest parties' key data inconsistent: " + err.Error()}
			}
			if !p.edd() {
				if err := checkECAuxHonest(ecs, dev); err != nil {
					return &runProblem{"bad-keydata-aux", "honest parties' key data inconsistent: " + err.Error()}
				}
			}
		}
	default:
		only := map[int]bool{}
		for _, nd := range net.Nodes[x.nOld:] {
			if honest[nd.Idx] && nd.Finished() {
				only[nd.Idx] = true
			}
		}
		if len(only) > 0 {
			if e := x.judgeNewCommitteeHonest(only, dev); e != nil {
				return &runProblem{"bad-keydata", "honest new members' key data: " + e.msg}
			}
		}
		// (5) key loss
		erased := false
		for i := 0; i < x.nOld; i++ {
			if !honest[i] {
				continue
			}
			var xi *big.Int
			if p.edd() {
				xi = x.heldED[i].Xi
			} else {
				xi = x.heldEC[i].Xi
			}
			if xi.Sign() == 0 {
				erased = true
			}
		}
		if erased {
			for _, nd := range net.Nodes[x.nOld:] {
				if honest[nd.Idx] && !nd.Finished() {
					return &runProblem{"key-lost", fmt.Sprintf("an honest old member erased its share but honest new member %d never emitted key data (all sent messages delivered)", nd.Idx)}
				}
			}
		}
	}
	if mode == "C06" {
		return nil
	}
	// (3) blame never lands on an honest third party; (4) covered => exactly the deviator
	anyErr := false
	for _, nd := range net.Nodes {
		if !honest[nd.Idx] {
			continue
		}
		for _, e := range nd.Errs {
			anyErr = true
			cn := culpritNodes(net, e)
			for _, c := range cn {
				if c != dev && c != nd.Idx {
					return &runProblem{"blame-honest", fmt.Sprintf("honest party %d blames party %v, the deviating party is %d (%v)", nd.Idx, cn, dev, e)}
				}
			}
			if covered && !(len(cn) == 1 && cn[0] == dev) {
				return &runProblem{"blame-missing", fmt.Sprintf("the altered value is covered by a commitment/share check/proof, but honest party %d reports culprits %v instead of exactly [%d] (%v)", nd.Idx, cn, dev, e)}
			}
		}
	}
	if covered && !anyErr {
		return &runProblem{"alteration-accepted", "the altered value is covered by a commitment/share check/proof, but no honest party aborted"}
	}
	return nil
}

// checkECAuxHonest: the auxiliary views among honest parties must agree (the deviator's entries may be anything consistent).
func checkECAuxHonest(keys []*eckeygenSave, dev int) error {
	var first *eckeygenSave
	for i, k := range keys {
		if k == nil {
			continue
		}
		if first == nil {
			first = k
			continue
		}
		for j := range k.PaillierPKs {
			if k.PaillierPKs[j] == nil || first.PaillierPKs[j] == nil || k.PaillierPKs[j].N.Cmp(first.PaillierPKs[j].N) != 0 ||
				k.NTildej[j].Cmp(first.NTildej[j]) != 0 || k.H1j[j].Cmp(first.H1j[j]) != 0 || k.H2j[j].Cmp(first.H2j[j]) != 0 {
				return fmt.Errorf("honest party %d recorded different Paillier / ring-Pedersen values for party %d than another honest party", i, j)
			}
		}
	}
	for i, k := range keys {
		if k == nil {
			continue
		}
		for j, o := range keys {
			if o == nil || j == i {
				continue
			}
			if o.PaillierPKs[i].N.Cmp(k.PaillierSK.N) != 0 {
				return fmt.Errorf("honest party %d stored a Paillier modulus for honest party %d that is not its key", j, i)
			}
		}
	}
	return nil
}

// runFault executes one fault cell.
func runFault(c faultCase, mode string) ev.Outcome {
	x := c.Run.build()
	fr := &faultRun{x: x, c: c}
	if !c.Run.edd() && x.pre != nil && c.F.Deviator < len(x.net.Nodes) {
		// the deviator's own Paillier modulus, for boundary values relative to N
		i := c.F.Deviator
		if c.Run.Proto == "ecdsa-resharing" {
			i -= x.nOld
		}
		if i >= 0 && i < len(x.pre) {
			fr.devN = x.pre[i].PaillierSK.N
		}
	}
	if x.heldEC != nil && c.F.Deviator < len(x.heldEC) && x.heldEC[c.F.Deviator].PaillierSK != nil {
		fr.devN = x.heldEC[c.F.Deviator].PaillierSK.N
	}
	if c.F.Kind == "wrong-secret" {
		return runWrongSecret(c)
	}
	if strings.HasPrefix(c.F.Kind, "weak-params-") {
		return runWeakParams(c)
	}
	fr.install()
	x.net.Run(sim.FIFO{}, 200000)
	if strings.HasPrefix(c.F.Kind, "mta-") {
		return judgeMtA(x, fr, c, out0(c))
	}
	if strings.HasPrefix(c.F.Kind, "redeal:") {
		return judgeRedeal(x, fr, c, out0(c))
	}
	covered := coveredFieldKind(c.F.MsgType, c.F.Field.Name, c.F.Kind) && (c.F.Kind == "+1" || c.F.Kind == "point-other" || c.F.Kind == "neg" || c.F.Kind == "rand" || c.F.Kind == "other" || c.F.Kind == "remove" || strings.HasPrefix(c.F.Kind, "commit:") || strings.HasPrefix(c.F.Kind, "bits-"))
	out := ev.Outcome{Label: fmt.Sprintf("%s %s.%s kind=%s dev=%d", c.Run.Proto, shortType(c.F.MsgType), c.F.Field.Name, c.F.Kind, c.F.Deviator)}
	if c.F.All {
		out.Label = fmt.Sprintf("%s %s.%s kind=%s from every peer of party %d", c.Run.Proto, shortType(c.F.MsgType), c.F.Field.Name, c.F.Kind, c.F.Recip)
	}
	out.Nontrivial = fr.consumed > 0
	if fr.applied == 0 || fr.na {
		out.Label = "not-applied " + out.Label
		out.Nontrivial = false
		return out
	}
	if c.F.Kind == "other" && fr.applied > 0 {
		// an honest party's value may coincide with the original (e.g. both empty): then nothing was altered
	}
	if len(x.net.EmitErrs) > 0 {
		out.Err, out.Sig = fmt.Errorf("routing problem: %s", x.net.EmitErrs[0]), "routing"
		return out
	}
	if p := judgeHonest(x, c.F.Deviator, covered, mode); p != nil {
		out.Err = fmt.Errorf("%s, deviator %d alters %s.%s (%s): %s", c.Run, c.F.Deviator, shortType(c.F.MsgType), c.F.Field, c.F.Kind, p.msg)
		out.Sig = fmt.Sprintf("%s:%s.%s:%s", p.sig, shortType(c.F.MsgType), c.F.Field.Name, c.F.Kind)
	}
	return out
}

// enumCells runs the configuration honestly once and lists every (deviator, message type, value) cell.
func enumCells(run protoRun, kinds []string, listKinds []string, salt int, maxPerList int) []faultCase {
	x := run.build()
	x.net.Run(sim.FIFO{}, 200000)
	var cells []faultCase
	seen := map[string]bool{}
	for _, e := range x.net.Emits {
		key := fmt.Sprintf("%d/%s", e.From, e.Type)
		if seen[key] {
			continue
		}
		seen[key] = true
		_, refs, lens, err := listFields(e.Bytes)
		if err != nil {
			continue
		}
		recip := -1
		if !e.Bcast {
			// one recipient chosen by the salt among this sender's recipients of that type
			var rs []int
			for _, e2 := range x.net.Emits {
				if e2.From == e.From && e2.Type == e.Type && len(e2.To) == 1 {
					rs = append(rs, e2.To[0])
				}
			}
			recip = rs[(salt+e.From)%len(rs)]
		}
		// choose positions of long lists
		keep := map[string]map[int]bool{}
		for name, l := range lens {
			keep[name] = map[int]bool{}
			if l <= maxPerList {
				for i := 0; i < l; i++ {
					keep[name][i] = true
				}
				continue
			}
			keep[name][0], keep[name][l-1] = true, true
			if strings.HasPrefix(name, "dlnproof") {
				keep[name][129], keep[name][1] = true, true
			}
			for k := 0; len(keep[name]) < maxPerList; k++ {
				keep[name][(salt*31+k*97+e.From*13)%l] = true
			}
		}
		for _, ref := range refs {
			if ref.Idx >= 0 && !keep[ref.Name][ref.Idx] {
				continue
			}
			for _, k := range kinds {
				cells = append(cells, faultCase{Run: run, F: faultSpec{Deviator: e.From, MsgType: e.Type, Field: ref, Kind: k, Recip: recip, Salt: salt}})
			}
			if len(kinds) > 0 && kinds[0] == "+1" && ref.Idx < 0 && strings.HasSuffix(ref.Name, "_x") {
				// the point (name_x, name_y) replaced by another VALID point of the curve
				for _, r2 := range refs {
					if r2.Idx < 0 && r2.Name == strings.TrimSuffix(ref.Name, "_x")+"_y" {
						cells = append(cells, faultCase{Run: run, F: faultSpec{Deviator: e.From, MsgType: e.Type, Field: ref, Kind: "point-other", Recip: recip, Salt: salt}})
					}
				}
			}
			if len(kinds) > 0 && kinds[0] == "+1" && negField(run, ref.Name) {
				cells = append(cells, faultCase{Run: run, F: faultSpec{Deviator: e.From, MsgType: e.Type, Field: ref, Kind: "neg", Recip: recip, Salt: salt}})
			}
			if ref.Name == "paillier_n" || ref.Name == "n_tilde" { // under-sized parameters
				for _, k := range []string{"bits-2047", "bits-1024"} {
					cells = append(cells, faultCase{Run: run, F: faultSpec{Deviator: e.From, MsgType: e.Type, Field: ref, Kind: k, Recip: recip, Salt: salt}})
				}
			}
		}
		if len(kinds) > 0 && kinds[0] == "+1" && len(refs) > 0 { // a second, different version of the message, later
			first := refs[0]
			for _, r := range refs {
				if coveredFieldKind(e.Type, r.Name, "+1") {
					first = r
					break
				}
			}
			nn := len(x.net.Nodes)
			for _, lag := range []int{1, nn * (nn - 1), 2 * nn * (nn - 1)} {
				cells = append(cells, faultCase{Run: run, F: faultSpec{Deviator: e.From, MsgType: e.Type, Field: first, Kind: "late+1", Recip: recip, Salt: salt, Arity: lag}})
			}
		}
		for name := range lens {
			for _, k := range listKinds {
				cells = append(cells, faultCase{Run: run, F: faultSpec{Deviator: e.From, MsgType: e.Type, Field: fieldRef{name, 0}, Kind: k, Recip: recip, Salt: salt}})
			}
		}
		// whole-message mirror attack
		if len(kinds) > 0 && kinds[0] == "+1" {
			cells = append(cells, faultCase{Run: run, F: faultSpec{Deviator: e.From, MsgType: e.Type, Field: fieldRef{"*", -1}, Kind: "mirror", Recip: recip, Salt: salt}})
		}
	}
	return cells
}

// commitValues builds the values the deviator commits to (coordinated commit/reveal strategy).
func (fr *faultRun) commitValues() []*big.Int {
	f := fr.c.F
	cv := fr.x.cv
	variant := strings.TrimPrefix(f.Kind, "commit:")
	gx, gy, _ := cv.refBaseMul(big.NewInt(int64(f.Salt%1000 + 2)))
	vals := make([]*big.Int, 0, f.Arity+2)
	for i := 0; i < f.Arity/2; i++ {
		vals = append(vals, gx, gy)
	}
	switch variant {
	case "offcurve":
		vals[0], vals[1] = big.NewInt(1), big.NewInt(1)
	case "offcurve-last":
		vals[len(vals)-2], vals[len(vals)-1] = add(gx, 1), gy
	case "identity":
		if cv.Name == "ed25519" {
			vals[0], vals[1] = big.NewInt(0), big.NewInt(1)
		} else {
			vals[0], vals[1] = big.NewInt(0), big.NewInt(0)
		}
	case "small-order":
		if cv.Name == "ed25519" {
			tp := refTorsion(1 + f.Salt%7)
			vals[0], vals[1] = tp[0], tp[1]
		} else {
			vals[0], vals[1] = big.NewInt(0), big.NewInt(0)
		}
	case "x>=p":
		vals[0] = new(big.Int).Add(gx, cv.P)
	case "short":
		vals = vals[:len(vals)-1]
	case "long":
		vals = append(vals, big.NewInt(7))
	case "len1":
		vals = vals[:1]
	case "empty":
		vals = vals[:0]
	case "valid-other": // well-formed values the deviator knows no witness for
	}
	return vals
}

func (fr *faultRun) alterCommitReveal(d *sim.Delivery) ([]byte, bool) {
	f := fr.c.F
	if b, ok := fr.cache[d.E]; ok {
		return b, true
	}
	if fr.commitD == nil {
		r := big.NewInt(int64(1000003 + f.Salt))
		cd := cmtNew(r, fr.commitValues())
		fr.commitD = cd.D
		fr.cache[nil] = cd.C.Bytes()
	}
	var out []byte
	var err error
	if d.E.Type == f.MsgType {
		out, err = rewriteWire(d.E.Bytes, func(m protoreflect.Message) {
			setField(m, f.Field, fr.cache[nil])
		})
	} else {
		out, err = rewriteWire(d.E.Bytes, func(m protoreflect.Message) {
			fd := m.Descriptor().Fields().ByName(protoreflect.Name(f.RevealField))
			if fd == nil || !fd.IsList() {
				return
			}
			l := m.Mutable(fd).List()
			l.Truncate(0)
			for _, v := range fr.commitD {
				b := v.Bytes()
				if len(b) == 0 {
					b = []byte{0}
				}
				l.Append(protoreflect.ValueOfBytes(b))
			}
		})
	}
	if err != nil {
		return nil, false
	}
	fr.cache[d.E] = out
	return out, true
}

// commitPairs: commitment message/field -> reveal message/field -> number of committed values
type commitPair struct {
	Commit, CField, Reveal, RField string
	Arity                          func(x *runCtx) int
}

var commitPairs = []commitPair{
	{pDS + "SignRound1Message", "commitment", pDS + "SignRound2Message", "de_commitment", func(*runCtx) int { return 2 }},
	{pDK + "KGRound1Message", "commitment", pDK + "KGRound2Message2", "de_commitment", func(x *runCtx) int { return 2 * (x.t + 1) }},
	{pDR + "DGRound1Message", "v_commitment", pDR + "DGRound3Message2", "v_decommitment", func(x *runCtx) int { return 2 * (x.p.NewT + 1) }},
	{pES + "SignRound1Message2", "commitment", pES + "SignRound4Message", "de_commitment", func(*runCtx) int { return 2 }},
	{pES + "SignRound5Message", "commitment", pES + "SignRound6Message", "de_commitment", func(*runCtx) int { return 4 }},
	{pES + "SignRound7Message", "commitment", pES + "SignRound8Message", "de_commitment", func(*runCtx) int { return 4 }},
	{pEK + "KGRound1Message", "commitment", pEK + "KGRound2Message2", "de_commitment", func(x *runCtx) int { return 2 * (x.t + 1) }},
	{pER + "DGRound1Message", "v_commitment", pER + "DGRound3Message2", "v_decommitment", func(x *runCtx) int { return 2 * (x.p.NewT + 1) }},
}

var commitVariants = []string{"offcurve", "offcurve-last", "identity", "small-order", "x>=p", "short", "long", "len1", "empty", "valid-other"}

// enumCommitCells lists the coordinated commit/reveal cells of a configuration.
func enumCommitCells(run protoRun, salt int) []faultCase {
	x := run.build()
	x.net.Run(sim.FIFO{}, 200000)
	var cells []faultCase
	seen := map[string]bool{}
	for _, e := range x.net.Emits {
		for _, cp := range commitPairs {
			if e.Type != cp.Commit || seen[fmt.Sprintf("%d/%s", e.From, e.Type)] {
				continue
			}
			seen[fmt.Sprintf("%d/%s", e.From, e.Type)] = true
			for _, v := range commitVariants {
				cells = append(cells, faultCase{Run: run, F: faultSpec{Deviator: e.From, MsgType: cp.Commit, Field: fieldRef{cp.CField, -1}, Kind: "commit:" + v,
					Recip: -1, Salt: salt, Reveal: cp.Reveal, RevealField: cp.RField, Arity: cp.Arity(x)}})
			}
		}
	}
	return cells
}

// runWrongSecret: the deviator takes part with Xi+1 instead of its share.
func runWrongSecret(c faultCase) ev.Outcome {
	run := c.Run
	run.BadXi = []int{c.F.Deviator}
	x := run.build()
	// the node built from Members[Deviator] (nodes are in sorted-id order)
	dev := -1
	for i := range x.net.Nodes {
		var held, orig *big.Int
		if run.edd() && i < len(x.heldED) {
			held = x.heldED[i].Xi
			d, _, _, _ := run.Key.resolveED()
			idx, _ := x.heldED[i].OriginalIndex()
			orig = d[idx].Xi
		} else if !run.edd() && i < len(x.heldEC) {
			held = x.heldEC[i].Xi
			d, _, _ := run.Key.resolveEC()
			idx, _ := x.heldEC[i].OriginalIndex()
			orig = d[idx].Xi
		}
		if held != nil && orig != nil && held.Cmp(orig) != 0 {
			dev = i
		}
	}
	out := ev.Outcome{Label: fmt.Sprintf("%s wrong-secret member=%d", run.Proto, c.F.Deviator), Nontrivial: true}
	if dev < 0 {
		out.Label = "not-applied " + out.Label
		out.Nontrivial = false
		return out
	}
	x.net.Run(sim.FIFO{}, 200000)
	// covered (exact blame demanded) only for ECDSA signing: Bob's proof with check against the public share point
	covered := run.Proto == "ecdsa-signing"
	if p := judgeHonest(x, dev, covered, "C05"); p != nil {
		out.Err = fmt.Errorf("%s, party %d uses a wrong secret share: %s", run, dev, p.msg)
		out.Sig = fmt.Sprintf("%s:wrong-secret:%s", p.sig, run.Proto)
	}
	return out
}

// runWeakParams: the deviator takes part with a structurally correct but under-sized Paillier key and
// ring-Pedersen modulus (its own proofs about them are honest). The property does not say such a party
// must be refused; it says nothing bad may come out and blame may only name the deviator.
func runWeakParams(c faultCase) ev.Outcome {
	run := c.Run
	var bits int
	fmt.Sscanf(c.F.Kind, "weak-params-%d", &bits)
	run.WeakPre, run.WeakBits = []int{c.F.Deviator}, bits
	x := run.build()
	dev := c.F.Deviator
	if run.Proto == "ecdsa-resharing" {
		dev += x.nOld
	}
	x.net.Run(sim.FIFO{}, 200000)
	out := ev.Outcome{Label: fmt.Sprintf("%s weak-params bits=%d member=%d", run.Proto, bits, c.F.Deviator), Nontrivial: true}
	aborted := false
	for _, nd := range x.net.Nodes {
		if nd.Idx != dev && nd.Errored() {
			aborted = true
		}
	}
	if aborted {
		out.Label += " (refused)"
	} else {
		out.Label += " (ACCEPTED by the honest parties)"
	}
	if p := judgeHonest(x, dev, false, "C05"); p != nil {
		out.Err = fmt.Errorf("%s, party %d brings %d-bit parameters: %s", run, dev, bits, p.msg)
		out.Sig = fmt.Sprintf("%s:weak-params:%s", p.sig, run.Proto)
	}
	return out
}

func out0(c faultCase) ev.Outcome {
	return ev.Outcome{Label: fmt.Sprintf("%s %s kind=%s dev=%d", c.Run.Proto, shortType(c.F.MsgType), c.F.Kind, c.F.Deviator)}
}

// signingSSID reproduces the session id of an ECDSA signing session from public data (it is a fact of
// the wire protocol: every signer derives it the same way); needed by a deviator that builds its own
// consistent MtA responses.
func signingSSID(x *runCtx, sub eckeygen.LocalPartySaveData) []byte {
	p := x.cv.EC.Params()
	list := []*big.Int{p.P, p.N, p.B, p.Gx, p.Gy}
	list = append(list, x.ids.Keys()...)
	flat, _ := crypto.FlattenECPoints(sub.BigXj)
	list = append(list, flat...)
	list = append(list, sub.NTildej...)
	list = append(list, sub.H1j...)
	list = append(list, sub.H2j...)
	list = append(list, big.NewInt(1), big.NewInt(0))
	return common.SHA512_256i(list...).Bytes()
}

// alterMtA: the deviator answers one peer's MtA with a response it built itself: internally consistent
// (the library's own prover, for the statement the deviator really uses) but with a multiplier or mask
// far outside the range Bob's proof has to enforce -- or, as calibration, with an in-range multiplier
// (then the proof must be accepted, which shows the harness derives the session context correctly).
func (fr *faultRun) alterMtA(d *sim.Delivery) ([]byte, bool) {
	f := fr.c.F
	x := fr.x
	dev, victim := f.Deviator, d.To
	var r1 *sim.Emit
	for _, e := range x.net.Emits {
		if e.From == victim && e.Type == pES+"SignRound1Message1" && len(e.To) == 1 && e.To[0] == dev {
			r1 = e
		}
	}
	if r1 == nil {
		return nil, false
	}
	sub := eckeygen.BuildLocalSaveDataSubset(x.heldEC[dev], x.ids)
	cA := new(big.Int).SetBytes(readField(r1.Bytes, fieldRef{"c", -1}))
	q := x.cv.Q
	pkA := sub.PaillierPKs[victim]
	session := append(signingSSID(x, sub), big.NewInt(int64(dev)).Bytes()...)
	wc := strings.HasPrefix(f.Kind, "mta-bobwc:")
	variant := f.Kind[strings.Index(f.Kind, ":")+1:]
	w, bigWs := ecsigning.PrepareForSigning(x.cv.EC, dev, len(x.ids), x.heldEC[dev].Xi, sub.Ks, sub.BigXj)
	mult := randBelow(q) // the multiplier the deviator really uses
	if wc {
		mult = new(big.Int).Set(w)
	}
	mask := randBelow(pow(q, 5))
	switch variant {
	case "huge-multiplier":
		mult = new(big.Int).Add(mult, new(big.Int).Lsh(q, 1640)) // = mult mod q, about 2^1896
	case "huge-mask":
		mask = new(big.Int).Lsh(pow(q, 7), 4)
	case "consistent": // in range: calibration
	}
	cMask, r, err := pkA.EncryptAndReturnRandomness(rand.Reader, mask)
	if err != nil {
		return nil, false
	}
	c2, err := pkA.HomoMult(mult, cA)
	if err != nil {
		return nil, false
	}
	c2, _ = pkA.HomoAdd(c2, cMask)
	var proofBz [][]byte
	if wc {
		pf, err := mta.ProveBobWC(session, x.cv.EC, pkA, sub.NTildej[victim], sub.H1j[victim], sub.H2j[victim], cA, c2, mult, mask, r, bigWs[dev], rand.Reader)
		if err != nil {
			return nil, false
		}
		b := pf.Bytes()
		proofBz = b[:]
	} else {
		pf, err := mta.ProveBob(session, x.cv.EC, pkA, sub.NTildej[victim], sub.H1j[victim], sub.H2j[victim], cA, c2, mult, mask, r, rand.Reader)
		if err != nil {
			return nil, false
		}
		b := pf.Bytes()
		proofBz = b[:]
	}
	cName, pName := "c1", "proof_bob"
	if wc {
		cName, pName = "c2", "proof_bob_wc"
	}
	out, err := rewriteWire(d.E.Bytes, func(m protoreflect.Message) {
		setField(m, fieldRef{cName, -1}, c2.Bytes())
		fd := m.Descriptor().Fields().ByName(protoreflect.Name(pName))
		l := m.Mutable(fd).List()
		l.Truncate(0)
		for _, b := range proofBz {
			l.Append(protoreflect.ValueOfBytes(b))
		}
	})
	if err != nil {
		return nil, false
	}
	return out, true
}

// judgeMtA: the calibration variant must get past the victim's round 3 (no abort there); the out-of-range
// variants must make the victim abort naming exactly the deviator (the value is covered by Bob's proof).
func judgeMtA(x *runCtx, fr *faultRun, c faultCase, out ev.Outcome) ev.Outcome {
	out.Nontrivial = fr.consumed > 0
	if fr.applied == 0 {
		out.Label = "not-applied " + out.Label
		out.Nontrivial = false
		return out
	}
	victim := c.F.Recip
	variant := c.F.Kind[strings.Index(c.F.Kind, ":")+1:]
	var verr *tss.Error
	if len(x.net.Nodes[victim].Errs) > 0 {
		verr = x.net.Nodes[victim].Errs[0]
	}
	if variant == "consistent" {
		if verr != nil && verr.Round() <= 3 {
			out.Label = "uncalibrated " + out.Label + " (the victim rejected an in-range self-built response: session context not reproduced)"
			out.Nontrivial = false
			return out
		}
		out.Label += " (calibrated: accepted in round 3)"
		if p := judgeHonest(x, c.F.Deviator, false, "C05"); p != nil {
			out.Err = fmt.Errorf("%s, deviator %d answers the MtA with another in-range multiplier: %s", c.Run, c.F.Deviator, p.msg)
			out.Sig = fmt.Sprintf("%s:%s:%s", p.sig, shortType(c.F.MsgType), c.F.Kind)
		}
		return out
	}
	if p := judgeHonest(x, c.F.Deviator, true, "C05"); p != nil {
		out.Err = fmt.Errorf("%s, deviator %d answers party %d's MtA with a consistent response whose %s is out of range: %s", c.Run, c.F.Deviator, victim, variant, p.msg)
		out.Sig = fmt.Sprintf("%s:%s:%s", p.sig, shortType(c.F.MsgType), c.F.Kind)
	}
	return out
}

type cmtPair struct {
	C *big.Int
	D []*big.Int
}

// alterRedeal: the deviator in key generation deals a polynomial of the harness' choosing, consistently
// in all three places (round-1 commitment, round-2 decommitment, every peer's share; for EdDSA also the
// Schnorr proof of the constant term). Variants: "consistent" (a perfectly good dealing: calibration, the
// run must complete), "degree+1" (one coefficient too many, shares evaluated on the longer polynomial),
// "degree-1" (one coefficient too few).
func (fr *faultRun) alterRedeal(d *sim.Delivery) ([]byte, bool) {
	f := fr.c.F
	x := fr.x
	q := x.cv.Q
	variant := strings.TrimPrefix(f.Kind, "redeal:")
	if fr.redealPoly == nil {
		deg := x.t
		switch variant {
		case "degree+1":
			deg = x.t + 1
		case "degree-1":
			deg = x.t - 1
			if deg < 0 {
				deg = 0
			}
		}
		for i := 0; i <= deg; i++ {
			fr.redealPoly = append(fr.redealPoly, add(randBelow(add(q, -1)), 1))
		}
		var flat []*big.Int
		for _, a := range fr.redealPoly {
			p := crypto.ScalarBaseMult(x.cv.EC, a)
			flat = append(flat, p.X(), p.Y())
		}
		cd := cmtNew(randBelow(new(big.Int).Lsh(one, 256)), flat)
		fr.redealCmt = &cmtPair{C: cd.C, D: cd.D}
	}
	eval := func(id *big.Int) *big.Int {
		r := new(big.Int)
		xx := new(big.Int).Mod(id, q)
		for i := len(fr.redealPoly) - 1; i >= 0; i-- {
			r.Mul(r, xx)
			r.Add(r, fr.redealPoly[i])
			r.Mod(r, q)
		}
		return r
	}
	var out []byte
	var err error
	switch {
	case strings.HasSuffix(d.E.Type, "KGRound1Message"):
		if b, ok := fr.cache[d.E]; ok {
			return b, true
		}
		out, err = rewriteWire(d.E.Bytes, func(m protoreflect.Message) {
			setField(m, fieldRef{"commitment", -1}, fr.redealCmt.C.Bytes())
		})
		fr.cache[d.E] = out
	case strings.HasSuffix(d.E.Type, "KGRound2Message2"):
		if b, ok := fr.cache[d.E]; ok {
			return b, true
		}
		out, err = rewriteWire(d.E.Bytes, func(m protoreflect.Message) {
			fd := m.Descriptor().Fields().ByName("de_commitment")
			l := m.Mutable(fd).List()
			l.Truncate(0)
			for _, v := range fr.redealCmt.D {
				b := v.Bytes()
				if len(b) == 0 {
					b = []byte{0}
				}
				l.Append(protoreflect.ValueOfBytes(b))
			}
			if x.p.edd() { // fresh Schnorr proof for the new constant term, bound to ssid || index
				pr := x.cv.EC.Params()
				list := []*big.Int{pr.P, pr.N, pr.Gx, pr.Gy}
				list = append(list, x.ids.Keys()...)
				list = append(list, big.NewInt(1), big.NewInt(0))
				ctx := append(common.SHA512_256i(list...).Bytes(), big.NewInt(int64(f.Deviator)).Bytes()...)
				V0 := crypto.ScalarBaseMult(x.cv.EC, fr.redealPoly[0])
				pf, e := schnorr.NewZKProof(ctx, fr.redealPoly[0], V0, rand.Reader)
				if e == nil {
					setField(m, fieldRef{"proof_alpha_x", -1}, pf.Alpha.X().Bytes())
					setField(m, fieldRef{"proof_alpha_y", -1}, pf.Alpha.Y().Bytes())
					setField(m, fieldRef{"proof_t", -1}, pf.T.Bytes())
				}
			}
		})
		fr.cache[d.E] = out
	case strings.HasSuffix(d.E.Type, "KGRound3Message"):
		// the Paillier-modulus proof is bound to the group public key, which the honest parties compute from
		// the re-dealt constant term: redo it for that key with the deviator's own Paillier secret key
		if b, ok := fr.cache[d.E]; ok {
			return b, true
		}
		pub := crypto.ScalarBaseMult(x.cv.EC, fr.redealPoly[0])
		seen := 0
		for _, e := range x.net.Emits {
			if e.From == f.Deviator || !strings.HasSuffix(e.Type, "KGRound2Message2") {
				continue
			}
			var v0 *crypto.ECPoint
			_, _ = rewriteWire(e.Bytes, func(m protoreflect.Message) {
				l := m.Get(m.Descriptor().Fields().ByName("de_commitment")).List()
				if l.Len() >= 3 {
					v0, _ = crypto.NewECPoint(x.cv.EC, new(big.Int).SetBytes(l.Get(1).Bytes()), new(big.Int).SetBytes(l.Get(2).Bytes()))
				}
			})
			if v0 == nil {
				return nil, false
			}
			if pub, err = pub.Add(v0); err != nil {
				return nil, false
			}
			seen++
		}
		if seen != len(x.net.Nodes)-1 {
			return nil, false // held until every honest reveal is on the wire
		}
		proof := x.pre[f.Deviator].PaillierSK.Proof(x.net.Nodes[f.Deviator].ID.KeyInt(), pub)
		out, err = rewriteWire(d.E.Bytes, func(m protoreflect.Message) {
			l := m.Mutable(m.Descriptor().Fields().ByName("paillier_proof")).List()
			l.Truncate(0)
			for _, v := range proof {
				l.Append(protoreflect.ValueOfBytes(v.Bytes()))
			}
		})
		fr.cache[d.E] = out
	case strings.HasSuffix(d.E.Type, "KGRound2Message1"):
		share := eval(x.net.Nodes[d.To].ID.KeyInt())
		out, err = rewriteWire(d.E.Bytes, func(m protoreflect.Message) {
			b := share.Bytes()
			if len(b) == 0 {
				b = []byte{0}
			}
			setField(m, fieldRef{"share", -1}, b)
		})
	}
	if err != nil || out == nil {
		return nil, false
	}
	return out, true
}

func judgeRedeal(x *runCtx, fr *faultRun, c faultCase, out ev.Outcome) ev.Outcome {
	out.Nontrivial = fr.consumed > 0
	variant := strings.TrimPrefix(c.F.Kind, "redeal:")
	dev := c.F.Deviator
	if variant == "consistent" {
		// a perfectly good dealing: every honest party must finish with valid, consistent key data
		for _, nd := range x.net.Nodes {
			if nd.Idx != dev && (nd.Errored() || !nd.Finished()) {
				why := "not finished"
				if nd.Errored() {
					why = fmt.Sprint(nd.Errs[0])
				}
				out.Label = "uncalibrated " + out.Label + " (honest parties did not accept a correct re-dealing: " + why + ")"
				out.Nontrivial = false
				return out
			}
		}
		out.Label += " (calibrated: accepted)"
		if p := judgeHonest(x, dev, false, "C05"); p != nil {
			out.Err = fmt.Errorf("%s, deviator %d deals another (correct) polynomial: %s", c.Run, dev, p.msg)
			out.Sig = fmt.Sprintf("%s:redeal:consistent", p.sig)
		}
		return out
	}
	if p := judgeHonest(x, dev, true, "C05"); p != nil {
		out.Err = fmt.Errorf("%s, deviator %d deals a polynomial of the wrong degree (%s), consistently committed, revealed and shared: %s", c.Run, dev, variant, p.msg)
		out.Sig = fmt.Sprintf("%s:%s", p.sig, c.F.Kind)
	}
	return out
}

package props

// C06 (a) — every exported verifier / decoder returns on boundary inputs: no panic, no hang.
// An honest transcript is flattened into a vector of numbers; 1-3 positions are replaced by boundary
// values relative to all moduli in play; the library call is made on the mutated vector.

import (
	"bytes"
	"crypto/rand"
	"encoding/gob"
	"encoding/json"
	"fmt"
	"math/big"
	"sync"
	"testing"
	"time"

	"github.com/bnb-chain/tss-lib/v2/crypto"
	cmt "github.com/bnb-chain/tss-lib/v2/crypto/commitments"
	"github.com/bnb-chain/tss-lib/v2/crypto/dlnproof"
	"github.com/bnb-chain/tss-lib/v2/crypto/facproof"
	"github.com/bnb-chain/tss-lib/v2/crypto/modproof"
	"github.com/bnb-chain/tss-lib/v2/crypto/mta"
	"github.com/bnb-chain/tss-lib/v2/crypto/paillier"
	"github.com/bnb-chain/tss-lib/v2/crypto/schnorr"
	"github.com/bnb-chain/tss-lib/v2/crypto/vss"
	"github.com/bnb-chain/tss-lib/v2/tss"
	"pgregory.net/rapid"

	"verif/harness/ev"
	"verif/harness/ref"
)

type siteInst struct {
	vec   []*big.Int
	names []string
	call  func(v []*big.Int)
}

type site struct {
	Name  string
	Build func(curve string, set, vset int) siteInst
}

// mkPoint: the decoder door (on-curve check); nil if refused.
func mkPoint(cv curveRef, x, y *big.Int) *crypto.ECPoint {
	p, err := crypto.NewECPoint(cv.EC, x, y)
	if err != nil {
		return nil
	}
	return p
}

var (
	siteCacheMu sync.Mutex
	siteCache   = map[string]siteInst{}
)

func cached(key string, f func() siteInst) siteInst {
	siteCacheMu.Lock()
	defer siteCacheMu.Unlock()
	if s, ok := siteCache[key]; ok {
		return s
	}
	s := f()
	siteCache[key] = s
	return s
}

var c06Sites = []site{
	{"schnorr.Verify", func(curve string, _, _ int) siteInst {
		cv := getCurve(curve)
		x := big.NewInt(123457)
		X := crypto.ScalarBaseMult(cv.EC, x)
		pf, _ := schnorr.NewZKProof([]byte("s"), x, X, rand.Reader)
		return siteInst{vec: []*big.Int{pf.Alpha.X(), pf.Alpha.Y(), pf.T, X.X(), X.Y()}, names: []string{"alpha.x", "alpha.y", "t", "X.x", "X.y"},
			call: func(v []*big.Int) {
				a, XX := mkPoint(cv, v[0], v[1]), mkPoint(cv, v[3], v[4])
				if a == nil || XX == nil {
					return
				}
				(&schnorr.ZKProof{Alpha: a, T: v[2]}).Verify([]byte("s"), XX)
			}}
	}},
	{"schnorrV.Verify", func(curve string, _, _ int) siteInst {
		cv := getCurve(curve)
		s, l := big.NewInt(99991), big.NewInt(77773)
		R := crypto.ScalarBaseMult(cv.EC, big.NewInt(5))
		V, _ := R.ScalarMult(s).Add(crypto.ScalarBaseMult(cv.EC, l))
		pf, _ := schnorr.NewZKVProof([]byte("s"), V, R, s, l, rand.Reader)
		return siteInst{vec: []*big.Int{pf.Alpha.X(), pf.Alpha.Y(), pf.T, pf.U, V.X(), V.Y(), R.X(), R.Y()}, names: []string{"alpha.x", "alpha.y", "t", "u", "V.x", "V.y", "R.x", "R.y"},
			call: func(v []*big.Int) {
				a, VV, RR := mkPoint(cv, v[0], v[1]), mkPoint(cv, v[4], v[5]), mkPoint(cv, v[6], v[7])
				if a == nil || VV == nil || RR == nil {
					return
				}
				(&schnorr.ZKVProof{Alpha: a, T: v[2], U: v[3]}).Verify([]byte("s"), VV, RR)
			}}
	}},
	{"dln.Verify", func(_ string, set, _ int) siteInst {
		return cached(fmt.Sprintf("dln/%d", set), func() siteInst {
			pp := preParams()[set]
			pf := dlnproof.NewDLNProof(pp.H1i, pp.H2i, pp.Alpha, pp.P, pp.Q, pp.NTildei, rand.Reader)
			vec := []*big.Int{pp.H1i, pp.H2i, pp.NTildei, pf.Alpha[0], pf.Alpha[127], pf.T[0], pf.T[64]}
			return siteInst{vec: vec, names: []string{"h1", "h2", "N", "alpha[0]", "alpha[127]", "t[0]", "t[64]"},
				call: func(v []*big.Int) {
					q := *pf
					q.Alpha[0], q.Alpha[127], q.T[0], q.T[64] = v[3], v[4], v[5], v[6]
					q.Verify(v[0], v[1], v[2])
				}}
		})
	}},
	{"dln.Unmarshal", func(_ string, set, _ int) siteInst {
		return cached(fmt.Sprintf("dlnU/%d", set), func() siteInst {
			pp := preParams()[set]
			pf := dlnproof.NewDLNProof(pp.H1i, pp.H2i, pp.Alpha, pp.P, pp.Q, pp.NTildei, rand.Reader)
			bzs, _ := pf.Serialize()
			idx := []int{0, 1, 128, 129, 130, 257} // the two length prefixes, first/last element of each part
			names := []string{"len1", "alpha[0]", "alpha[127]", "len2", "t[0]", "t[127]"}
			vec := make([]*big.Int, len(idx))
			for k, i := range idx {
				vec[k] = new(big.Int).SetBytes(bzs[i])
			}
			return siteInst{vec: vec, names: names, call: func(v []*big.Int) {
				out := make([][]byte, len(bzs))
				copy(out, bzs)
				for k, i := range idx {
					out[i] = v[k].Bytes()
				}
				if p, err := dlnproof.UnmarshalDLNProof(out); err == nil {
					p.Verify(pp.H1i, pp.H2i, pp.NTildei)
				}
				// list too short / too long / empty
				dlnproof.UnmarshalDLNProof(out[:len(out)-1])
				dlnproof.UnmarshalDLNProof(append(append([][]byte{}, out...), v[0].Bytes()))
				dlnproof.UnmarshalDLNProof(out[:1])
				dlnproof.UnmarshalDLNProof(nil)
				// the same 256 values re-partitioned: both length prefixes changed consistently (k and 256-k), so
				// that the list still has exactly 258 non-empty fields
				vals := append(append([][]byte{}, out[1:129]...), out[130:258]...)
				for _, k := range []int{0, 1, 127, 129, 255, 256} {
					pre := func(n int) []byte {
						if n == 0 {
							return []byte{0}
						}
						return big.NewInt(int64(n)).Bytes()
					}
					re := append([][]byte{pre(k)}, vals[:k]...)
					re = append(append(re, pre(256-k)), vals[k:]...)
					if p, err := dlnproof.UnmarshalDLNProof(re); err == nil {
						p.Verify(pp.H1i, pp.H2i, pp.NTildei)
					}
				}
			}}
		})
	}},
	{"paillier.Proof.Verify", func(_ string, set, _ int) siteInst {
		return cached(fmt.Sprintf("pp/%d", set), func() siteInst {
			pp := preParams()[set]
			pub := crypto.ScalarBaseMult(tss.S256(), big.NewInt(424242))
			k := big.NewInt(31337)
			pf := pp.PaillierSK.Proof(k, pub)
			return siteInst{vec: []*big.Int{pf[0], pf[12], k}, names: []string{"y[0]", "y[12]", "k"},
				call: func(v []*big.Int) {
					q := pf
					q[0], q[12] = v[0], v[1]
					q.Verify(pp.PaillierSK.N, v[2], pub)
				}}
		})
	}},
	{"mod.Verify", func(_ string, set, _ int) siteInst {
		return cached(fmt.Sprintf("mod/%d", set), func() siteInst {
			pp := preParams()[set]
			pf, _ := modproof.NewProof([]byte("s"), pp.PaillierSK.N, pp.PaillierSK.P, pp.PaillierSK.Q, rand.Reader)
			return siteInst{vec: []*big.Int{pf.W, pf.X[0], pf.X[79], pf.A, pf.B, pf.Z[0], pf.Z[79], pp.PaillierSK.N}, names: []string{"w", "x[0]", "x[79]", "a", "b", "z[0]", "z[79]", "N"},
				call: func(v []*big.Int) {
					q := *pf
					q.W, q.X[0], q.X[79], q.A, q.B, q.Z[0], q.Z[79] = v[0], v[1], v[2], v[3], v[4], v[5], v[6]
					q.Verify([]byte("s"), v[7])
				}}
		})
	}},
	{"fac.Verify", func(curve string, set, vset int) siteInst {
		cv := getCurve(curve)
		pp, vp := preParams()[set], preParams()[vset]
		pf, _ := facproof.NewProof([]byte("s"), cv.EC, pp.PaillierSK.N, vp.NTildei, vp.H1i, vp.H2i, pp.PaillierSK.P, pp.PaillierSK.Q, rand.Reader)
		vec := []*big.Int{pf.P, pf.Q, pf.A, pf.B, pf.T, pf.Sigma, pf.Z1, pf.Z2, pf.W1, pf.W2, pf.V, pp.PaillierSK.N, vp.NTildei, vp.H1i, vp.H2i}
		return siteInst{vec: vec, names: []string{"P", "Q", "A", "B", "T", "sigma", "z1", "z2", "w1", "w2", "v", "N0", "NCap", "s", "t"},
			call: func(v []*big.Int) {
				q := &facproof.ProofFac{P: v[0], Q: v[1], A: v[2], B: v[3], T: v[4], Sigma: v[5], Z1: v[6], Z2: v[7], W1: v[8], W2: v[9], V: v[10]}
				q.Verify([]byte("s"), cv.EC, v[11], v[12], v[13], v[14])
			}}
	}},
	{"range.Verify", func(curve string, set, vset int) siteInst {
		cv := getCurve(curve)
		pp, vp := preParams()[set], preParams()[vset]
		pk := &pp.PaillierSK.PublicKey
		m := big.NewInt(987654321)
		c, r, _ := pk.EncryptAndReturnRandomness(rand.Reader, m)
		pf, _ := mta.ProveRangeAlice(cv.EC, pk, c, vp.NTildei, vp.H1i, vp.H2i, m, r, rand.Reader)
		vec := []*big.Int{pf.Z, pf.U, pf.W, pf.S, pf.S1, pf.S2, c, vp.NTildei, vp.H1i, vp.H2i, pk.N}
		return siteInst{vec: vec, names: []string{"z", "u", "w", "s", "s1", "s2", "c", "NTilde", "h1", "h2", "N"},
			call: func(v []*big.Int) {
				q := &mta.RangeProofAlice{Z: v[0], U: v[1], W: v[2], S: v[3], S1: v[4], S2: v[5]}
				q.Verify(cv.EC, &paillier.PublicKey{N: v[10]}, v[7], v[8], v[9], v[6])
			}}
	}},
	{"bobwc.Verify", func(curve string, set, vset int) siteInst {
		cv := getCurve(curve)
		pp, vp := preParams()[set], preParams()[vset]
		pk := &pp.PaillierSK.PublicKey
		c1, _, _ := pk.EncryptAndReturnRandomness(rand.Reader, big.NewInt(55555))
		x, y := big.NewInt(1234567), big.NewInt(7654321)
		cy, r, _ := pk.EncryptAndReturnRandomness(rand.Reader, y)
		c2, _ := pk.HomoMult(x, c1)
		c2, _ = pk.HomoAdd(c2, cy)
		X := crypto.ScalarBaseMult(cv.EC, x)
		pf, _ := mta.ProveBobWC([]byte("s"), cv.EC, pk, vp.NTildei, vp.H1i, vp.H2i, c1, c2, x, y, r, X, rand.Reader)
		b := pf.ProofBob
		vec := []*big.Int{b.Z, b.ZPrm, b.T, b.V, b.W, b.S, b.S1, b.S2, b.T1, b.T2, pf.U.X(), pf.U.Y(), c1, c2, X.X(), X.Y(), vp.NTildei, pk.N}
		return siteInst{vec: vec, names: []string{"z", "zprm", "t", "v", "w", "s", "s1", "s2", "t1", "t2", "u.x", "u.y", "c1", "c2", "X.x", "X.y", "NTilde", "N"},
			call: func(v []*big.Int) {
				u, XX := mkPoint(cv, v[10], v[11]), mkPoint(cv, v[14], v[15])
				if u == nil || XX == nil {
					return
				}
				q := &mta.ProofBobWC{ProofBob: &mta.ProofBob{Z: v[0], ZPrm: v[1], T: v[2], V: v[3], W: v[4], S: v[5], S1: v[6], S2: v[7], T1: v[8], T2: v[9]}, U: u}
				q.Verify([]byte("s"), cv.EC, &paillier.PublicKey{N: v[17]}, v[16], vp.H1i, vp.H2i, v[12], v[13], XX)
				q.ProofBob.Verify([]byte("s"), cv.EC, &paillier.PublicKey{N: v[17]}, v[16], vp.H1i, vp.H2i, v[12], v[13])
			}}
	}},
	{"mta.AliceEnd", func(curve string, set, vset int) siteInst {
		cv := getCurve(curve)
		pp := preParams()[set]
		pk := &pp.PaillierSK.PublicKey
		a := big.NewInt(424243)
		cA, pfA, _ := mta.AliceInit(cv.EC, pk, a, pp.NTildei, pp.H1i, pp.H2i, rand.Reader)
		b := big.NewInt(31338)
		B := crypto.ScalarBaseMult(cv.EC, b)
		_, cB, _, pfB, _ := mta.BobMidWC([]byte("s"), cv.EC, pk, pfA, b, cA, pp.NTildei, pp.H1i, pp.H2i, pp.NTildei, pp.H1i, pp.H2i, B, rand.Reader)
		if pfB == nil {
			panic("harness: BobMidWC failed")
		}
		return siteInst{vec: []*big.Int{cA, cB}, names: []string{"cA", "cB"}, call: func(v []*big.Int) {
			mta.AliceEndWC([]byte("s"), cv.EC, pk, pfB, B, v[0], v[1], pp.NTildei, pp.H1i, pp.H2i, pp.PaillierSK)
			mta.AliceEnd([]byte("s"), cv.EC, pk, pfB.ProofBob, pp.H1i, pp.H2i, v[0], v[1], pp.NTildei, pp.PaillierSK)
		}}
	}},
	{"paillier.ops", func(_ string, set, _ int) siteInst {
		pp := preParams()[set]
		pk := &pp.PaillierSK.PublicKey
		c, _ := pk.Encrypt(rand.Reader, big.NewInt(42))
		return siteInst{vec: []*big.Int{c, big.NewInt(42), c}, names: []string{"c1", "m", "c2"}, call: func(v []*big.Int) {
			pp.PaillierSK.Decrypt(v[0])
			pk.HomoMult(v[1], v[0])
			pk.HomoAdd(v[0], v[2])
			pk.Encrypt(rand.Reader, v[1])
		}}
	}},
	{"vss.Verify", func(curve string, _, _ int) siteInst {
		cv := getCurve(curve)
		ids := []*big.Int{big.NewInt(1), big.NewInt(2), big.NewInt(3)}
		vs, shares, _ := vss.Create(cv.EC, 1, big.NewInt(777), ids, rand.Reader)
		vec := []*big.Int{shares[0].Share, shares[0].ID, vs[0].X(), vs[0].Y(), vs[1].X(), vs[1].Y(), shares[1].Share, shares[1].ID}
		return siteInst{vec: vec, names: []string{"share", "id", "v0.x", "v0.y", "v1.x", "v1.y", "share2", "id2"}, call: func(v []*big.Int) {
			p0, p1 := mkPoint(cv, v[2], v[3]), mkPoint(cv, v[4], v[5])
			if p0 != nil && p1 != nil {
				(&vss.Share{Threshold: 1, ID: v[1], Share: v[0]}).Verify(cv.EC, 1, vss.Vs{p0, p1})
			}
			vss.Shares{{Threshold: 1, ID: v[1], Share: v[0]}, {Threshold: 1, ID: v[7], Share: v[6]}}.ReConstruct(cv.EC)
			vss.CheckIndexes(cv.EC, []*big.Int{v[1], v[7]})
		}}
	}},
	{"commitments", func(_ string, _, _ int) siteInst {
		c := cmt.NewHashCommitmentWithRandomness(big.NewInt(5), big.NewInt(2), big.NewInt(9), big.NewInt(1), big.NewInt(4))
		vec := append([]*big.Int{c.C}, c.D...)
		return siteInst{vec: vec, names: []string{"C", "r", "d1", "d2", "d3", "d4"}, call: func(v []*big.Int) {
			x := cmt.HashCommitDecommit{C: v[0], D: v[1:]}
			x.Verify()
			x.DeCommit()
			cmt.ParseSecrets(v[2:])
			cmt.ParseSecrets(v[1:2])
		}}
	}},
	{"ecpoint.doors", func(curve string, _, _ int) siteInst {
		cv := getCurve(curve)
		p := crypto.ScalarBaseMult(cv.EC, big.NewInt(987))
		q := crypto.ScalarBaseMult(cv.EC, big.NewInt(654))
		return siteInst{vec: []*big.Int{p.X(), p.Y(), q.X(), q.Y(), big.NewInt(12345)}, names: []string{"x", "y", "x2", "y2", "k"}, call: func(v []*big.Int) {
			if pt, err := crypto.NewECPoint(cv.EC, v[0], v[1]); err == nil {
				if c.callScalar(cv, v[4]) {
					pt.ScalarMult(v[4])
				}
				if p2, err := crypto.NewECPoint(cv.EC, v[2], v[3]); err == nil {
					pt.Add(p2)
				}
				if cv.Name == "ed25519" {
					pt.EightInvEight()
				}
			}
			crypto.UnFlattenECPoints(cv.EC, v[:4])
			crypto.UnFlattenECPoints(cv.EC, v[:3])
			name := "secp256k1"
			if cv.Name == "ed25519" {
				name = "ed25519"
			}
			js, _ := json.Marshal(map[string]interface{}{"Curve": name, "Coords": []*big.Int{v[0], v[1]}})
			var pt crypto.ECPoint
			_ = json.Unmarshal(js, &pt)
			// gob
			var buf bytes.Buffer
			if err := gob.NewEncoder(&buf).Encode(crypto.NewECPointNoCurveCheck(cv.EC, v[0], v[1])); err == nil {
				var g crypto.ECPoint
				_ = gob.NewDecoder(&buf).Decode(&g)
			}
		}}
	}},
}

type scalarRule struct{}

var c = scalarRule{}

// callScalar: ScalarMult with k = 0 mod q is documented as unrepresentable on secp256k1 only for the
// honest-caller API; from the wire no scalar reaches ECPoint.ScalarMult directly, so k=0 mod q is skipped.
func (scalarRule) callScalar(cv curveRef, k *big.Int) bool {
	return !(cv.Name == "secp256k1" && new(big.Int).Mod(k, cv.Q).Sign() == 0)
}

type c06aCase struct {
	Site  string
	Curve string
	Set   int
	VSet  int
	Pos   []int
	Vals  []string
	Raw   H
}

var c06ValueClasses = []string{"0", "1", "2", "q-1", "q", "q+1", "2q", "N-1", "N", "N+1", "N^2", "N^2-1", "NT", "NT-1", "p", "p-1", "P", "2^256", "2^1024", "2^2048", "2^4096+1", "huge", "flip", "+1", "-1", "other", "q^3", "q^3+1", "q^7+1", "kq", "negmodN"}

func genC06a(t *rapid.T) c06aCase {
	names := make([]string, len(c06Sites))
	for i, s := range c06Sites {
		names[i] = s.Name
	}
	c := c06aCase{Site: rapid.SampledFrom(names).Draw(t, "site"), Curve: rapid.SampledFrom([]string{"secp256k1", "ed25519"}).Draw(t, "curve"),
		Set: rapid.IntRange(0, 4).Draw(t, "set"), VSet: rapid.IntRange(0, 4).Draw(t, "vset")}
	n := rapid.SampledFrom([]int{1, 1, 1, 2, 3}).Draw(t, "nrepl")
	for i := 0; i < n; i++ {
		c.Pos = append(c.Pos, rapid.IntRange(0, 300).Draw(t, "pos"))
		c.Vals = append(c.Vals, rapid.SampledFrom(c06ValueClasses).Draw(t, "val"))
	}
	c.Raw = hx(drawBigBits(t, "raw", 300))
	return c
}

func c06Value(cls string, honest, other *big.Int, cv curveRef, N, NT, P *big.Int, raw *big.Int) *big.Int {
	q := cv.Q
	switch cls {
	case "0":
		return big.NewInt(0)
	case "1":
		return big.NewInt(1)
	case "2":
		return big.NewInt(2)
	case "q-1":
		return add(q, -1)
	case "q":
		return new(big.Int).Set(q)
	case "q+1":
		return add(q, 1)
	case "2q":
		return new(big.Int).Lsh(q, 1)
	case "kq":
		return mul(q, add(new(big.Int).Mod(raw, big.NewInt(1000)), 3))
	case "N-1":
		return add(N, -1)
	case "N":
		return new(big.Int).Set(N)
	case "N+1":
		return add(N, 1)
	case "N^2":
		return mul(N, N)
	case "N^2-1":
		return add(mul(N, N), -1)
	case "NT":
		return new(big.Int).Set(NT)
	case "NT-1":
		return add(NT, -1)
	case "p":
		return new(big.Int).Set(cv.P)
	case "p-1":
		return add(cv.P, -1)
	case "P":
		return new(big.Int).Set(P)
	case "2^256":
		return new(big.Int).Lsh(one, 256)
	case "2^1024":
		return new(big.Int).Lsh(one, 1024)
	case "2^2048":
		return new(big.Int).Lsh(one, 2048)
	case "2^4096+1":
		return add(new(big.Int).Lsh(one, 4096), 1)
	case "huge":
		return new(big.Int).Lsh(add(raw, 1), 9000)
	case "flip":
		return new(big.Int).Xor(honest, one)
	case "+1":
		return add(honest, 1)
	case "-1":
		if honest.Sign() == 0 {
			return big.NewInt(1)
		}
		return add(honest, -1)
	case "other":
		return new(big.Int).Set(other)
	case "q^3":
		return pow(q, 3)
	case "q^3+1":
		return add(pow(q, 3), 1)
	case "q^7+1":
		return add(pow(q, 7), 1)
	case "negmodN":
		return new(big.Int).Sub(N, new(big.Int).Mod(honest, N))
	}
	return new(big.Int).Set(honest)
}

func runC06a(c c06aCase) ev.Outcome {
	var st *site
	for i := range c06Sites {
		if c06Sites[i].Name == c.Site {
			st = &c06Sites[i]
		}
	}
	if st == nil {
		return ev.Outcome{Skip: true}
	}
	cv := getCurve(c.Curve)
	inst := st.Build(c.Curve, c.Set, c.VSet)
	pp := preParams()[c.Set]
	v := make([]*big.Int, len(inst.vec))
	for i := range v {
		v[i] = new(big.Int).Set(inst.vec[i])
	}
	desc := ""
	for k, p := range c.Pos {
		i := p % len(v)
		o := (p/len(v) + i + 1) % len(v)
		v[i] = c06Value(c.Vals[k], inst.vec[i], inst.vec[o], cv, pp.PaillierSK.N, pp.NTildei, pp.PaillierSK.P, c.Raw.Big())
		desc += fmt.Sprintf(" %s:=%s", inst.names[i], c.Vals[k])
	}
	out := ev.Outcome{Label: fmt.Sprintf("%s%s", c.Site, desc), Nontrivial: true}
	if len(c.Pos) > 1 {
		out.Label = fmt.Sprintf("%s multi(%d)", c.Site, len(c.Pos))
	}
	ok, p := withDeadline(90*time.Second, func() { inst.call(v) })
	if !ok {
		out.Err = fmt.Errorf("%s did not return within 90s on%s (%s)", c.Site, desc, c.Curve)
		out.Sig = "hang:" + c.Site + desc
		return out
	}
	if p != nil {
		out.Err = fmt.Errorf("%s panicked on%s (%s): %v", c.Site, desc, c.Curve, p)
		out.Sig = "panic:" + c.Site + desc
	}
	return out
}

func TestC06Verifiers(t *testing.T) {
	r := ev.New(t, "C06")
	ev.Drive(t, r, genC06a, runC06a)
}

// TestC06VerifiersSystematic: every (site, position, value class) single replacement, on both curves.
func TestC06VerifiersSystematic(t *testing.T) {
	r := ev.New(t, "C06")
	var cases []c06aCase
	shard, shards := ev.Shard()
	k := 0
	for _, st := range c06Sites {
		for _, curve := range []string{"secp256k1", "ed25519"} {
			inst := st.Build(curve, 0, 1)
			for pos := range inst.vec {
				for _, vc := range c06ValueClasses {
					k++
					if k%shards != shard {
						continue
					}
					cases = append(cases, c06aCase{Site: st.Name, Curve: curve, Set: 0, VSet: 1, Pos: []int{pos}, Vals: []string{vc}, Raw: "abcdef0123"})
				}
			}
		}
	}
	ev.Each(t, r, cases, runC06a)
	r.SetExhaustive(true)
}

var _ = ref.Secp

package props

// C17 — Only valid curve points are accepted; point arithmetic and encodings are exact.

import (
	"bytes"
	"encoding/gob"
	"encoding/json"
	"fmt"
	"math/big"
	"testing"

	"github.com/bnb-chain/tss-lib/v2/crypto"
	"github.com/bnb-chain/tss-lib/v2/crypto/mta"
	ecsigning "github.com/bnb-chain/tss-lib/v2/ecdsa/signing"
	"github.com/bnb-chain/tss-lib/v2/tss"
	"pgregory.net/rapid"

	"verif/harness/ev"
	"verif/harness/ref"
)

type c17Case struct {
	Curve string
	Op    string
	K1    H
	K2    H
	KC    string
	Bad   string // invalid-point class for door tests
	Door  string
	Tor   int
}

var c17Ops = []string{"door", "door", "door", "arith", "arith", "laws", "roundtrip", "torsion"}
var c17Bad = []string{"valid", "valid", "x+1", "y+1", "swapped", "x+p", "y+p", "neg-x", "neg-y", "other-curve", "zero-zero", "x>=p-small", "random", "identity", "small-order", "huge", "zero-as-p", "x=p", "y=p"}
var c17Doors = []string{"NewECPoint", "UnFlatten", "JSON", "JSON-nocurve", "Gob", "msg-zkproof", "msg-bobwc"}

func genC17(t *rapid.T) c17Case {
	c := c17Case{Curve: rapid.SampledFrom([]string{"secp256k1", "ed25519"}).Draw(t, "curve"), Op: rapid.SampledFrom(c17Ops).Draw(t, "op")}
	cv := getCurve(c.Curve)
	c.KC = rapid.SampledFrom([]string{"1", "2", "q-1", "q+1", "2q+1", "2^300", "p+1", "prod", "rand", "rand", "short-x", "short-y"}).Draw(t, "kclass")
	var k *big.Int
	switch c.KC {
	case "1":
		k = big.NewInt(1)
	case "2":
		k = big.NewInt(2)
	case "q-1":
		k = add(cv.Q, -1)
	case "q+1":
		k = add(cv.Q, 1)
	case "2q+1":
		k = add(new(big.Int).Lsh(cv.Q, 1), 1)
	case "2^300":
		k = add(new(big.Int).Lsh(one, 300), int64(rapid.IntRange(1, 1000).Draw(t, "off")))
	case "p+1":
		k = add(cv.P, 1)
	case "prod": // an unreduced product of two scalars
		k = mul(add(drawBelow(t, "a", cv.Q), 1), add(drawBelow(t, "b", cv.Q), 1))
	default:
		k = add(drawBelow(t, "k", add(cv.Q, -1)), 1)
	}
	c.K1 = hx(k)
	c.K2 = hx(add(drawBelow(t, "k2", add(cv.Q, -1)), 1))
	c.Bad = rapid.SampledFrom(c17Bad).Draw(t, "bad")
	c.Door = rapid.SampledFrom(c17Doors).Draw(t, "door")
	c.Tor = rapid.IntRange(0, 7).Draw(t, "tor")
	return c
}

func otherCurve(name string) string {
	if name == "secp256k1" {
		return "ed25519"
	}
	return "secp256k1"
}

// c17Coords builds the coordinate pair of the invalid-point class.
func c17Coords(c c17Case) (x, y *big.Int) {
	cv := getCurve(c.Curve)
	px, py, _ := cv.refBaseMul(new(big.Int).Mod(c.K2.Big(), cv.Q))
	switch c.Bad {
	case "valid":
		return px, py
	case "x+1":
		return add(px, 1), py
	case "y+1":
		return px, add(py, 1)
	case "swapped":
		return py, px
	case "x+p":
		return new(big.Int).Add(px, cv.P), py
	case "y+p":
		return px, new(big.Int).Add(py, cv.P)
	case "neg-x":
		return new(big.Int).Sub(px, cv.P), py // congruent to x, but negative
	case "neg-y":
		return px, new(big.Int).Sub(py, cv.P)
	case "other-curve":
		ox, oy, _ := getCurve(otherCurve(c.Curve)).refBaseMul(new(big.Int).Mod(c.K2.Big(), getCurve(otherCurve(c.Curve)).Q))
		return ox, oy
	case "zero-zero":
		return big.NewInt(0), big.NewInt(0)
	case "x>=p-small": // secp256k1: a point with small x, presented as x+p (< 2^256)
		if c.Curve == "secp256k1" {
			for xv := int64(1); xv < 200; xv++ {
				if p, ok := ref.Secp.Decompress(big.NewInt(xv), false); ok {
					return new(big.Int).Add(p.X, cv.P), p.Y
				}
			}
		}
		return new(big.Int).Add(px, cv.P), py
	case "random":
		return new(big.Int).Mod(mul(px, py), cv.P), new(big.Int).Mod(add(mul(py, py), 3), cv.P)
	case "identity":
		if c.Curve == "ed25519" {
			return big.NewInt(0), big.NewInt(1)
		}
		return big.NewInt(0), big.NewInt(0)
	case "small-order":
		if c.Curve == "ed25519" {
			tp := ref.Ed.Torsion()[1+c.Tor%7]
			return tp.X, tp.Y
		}
		return big.NewInt(0), big.NewInt(0)
	case "huge":
		return new(big.Int).Lsh(px, 300), py
	case "zero-as-p": // a point with a zero coordinate, the zero written as the field prime itself
		if c.Curve == "ed25519" {
			tp := ref.Ed.Torsion()[c.Tor%8]
			x, y := new(big.Int).Set(tp.X), new(big.Int).Set(tp.Y)
			if x.Sign() == 0 {
				x.Set(cv.P)
			}
			if y.Sign() == 0 {
				y.Set(cv.P)
			}
			return x, y
		}
		return new(big.Int).Set(cv.P), big.NewInt(0)
	case "x=p":
		return new(big.Int).Set(cv.P), py
	case "y=p":
		return px, new(big.Int).Set(cv.P)
	}
	return px, py
}

func runC17(c c17Case) (out ev.Outcome) {
	cv := getCurve(c.Curve)
	out = ev.Outcome{}
	var watch bigWatch
	defer func() { watch.finish(&out, "point arithmetic") }()
	fail := func(sig, f string, a ...interface{}) ev.Outcome {
		out.Err, out.Sig = fmt.Errorf(f, a...), sig
		return out
	}
	k := c.K1.Big()
	switch c.Op {
	case "door":
		x, y := c17Coords(c)
		want := cv.refOnCurve(x, y) // coordinates in [0,p) and on the curve
		out.Label = fmt.Sprintf("door %s %s class=%s", c.Door, c.Curve, c.Bad)
		out.Nontrivial = c.Bad != "valid"
		var accepted bool
		var gx, gy *big.Int
		switch c.Door {
		case "NewECPoint":
			p, err := crypto.NewECPoint(cv.EC, x, y)
			accepted = err == nil && p != nil
			if accepted {
				gx, gy = p.X(), p.Y()
			}
		case "UnFlatten":
			g := crypto.ScalarBaseMult(cv.EC, big.NewInt(7))
			ps, err := crypto.UnFlattenECPoints(cv.EC, []*big.Int{g.X(), g.Y(), x, y})
			accepted = err == nil && len(ps) == 2
			if accepted {
				gx, gy = ps[1].X(), ps[1].Y()
				if !ps[0].Equals(g) {
					return fail("unflatten-order", "UnFlattenECPoints changed the first point")
				}
			}
			if _, err := crypto.UnFlattenECPoints(cv.EC, []*big.Int{x, y, x}); err == nil {
				return fail("unflatten-odd", "UnFlattenECPoints accepted an odd number of coordinates")
			}
		case "JSON", "JSON-nocurve":
			name := string(tss.Secp256k1)
			if c.Curve == "ed25519" {
				name = string(tss.Ed25519)
			}
			doc := map[string]interface{}{"Coords": []*big.Int{x, y}}
			if c.Door == "JSON" {
				doc["Curve"] = name
			} else if c.Curve != "secp256k1" {
				out.Skip = true // a document without a curve name means the process-global default curve (secp256k1)
				return out
			}
			bz, _ := json.Marshal(doc)
			var p crypto.ECPoint
			err := json.Unmarshal(bz, &p)
			accepted = err == nil
			if accepted {
				gx, gy = p.X(), p.Y()
			}
		case "Gob":
			if c.Curve != "secp256k1" {
				out.Skip = true // GobDecode has no curve field: it means the process-global default curve
				return out
			}
			var buf bytes.Buffer
			if err := gob.NewEncoder(&buf).Encode(crypto.NewECPointNoCurveCheck(cv.EC, x, y)); err != nil {
				out.Skip = true
				return out
			}
			var p crypto.ECPoint
			err := gob.NewDecoder(&buf).Decode(&p)
			accepted = err == nil
			if accepted {
				gx, gy = p.X(), p.Y()
			}
		case "msg-zkproof":
			if x.Sign() < 0 || y.Sign() < 0 {
				out.Skip = true // wire fields are unsigned byte strings
				return out
			}
			m := &ecsigning.SignRound4Message{DeCommitment: [][]byte{{1}, {2}, {3}}, ProofAlphaX: x.Bytes(), ProofAlphaY: y.Bytes(), ProofT: []byte{5}}
			pf, err := m.UnmarshalZKProof(cv.EC)
			accepted = err == nil && pf != nil
			if accepted {
				gx, gy = pf.Alpha.X(), pf.Alpha.Y()
			}
		case "msg-bobwc":
			if x.Sign() < 0 || y.Sign() < 0 {
				out.Skip = true
				return out
			}
			bzs := make([][]byte, 12)
			for i := range bzs {
				bzs[i] = []byte{byte(i + 1)}
			}
			bzs[10], bzs[11] = x.Bytes(), y.Bytes()
			if len(bzs[10]) == 0 || len(bzs[11]) == 0 {
				out.Skip = true
				return out
			}
			pf, err := mta.ProofBobWCFromBytes(cv.EC, bzs)
			accepted = err == nil && pf != nil
			if accepted {
				gx, gy = pf.U.X(), pf.U.Y()
			}
		}
		if accepted != want {
			sig := "door-accepts-invalid"
			if want {
				sig = "door-rejects-valid"
			}
			return fail(sig+":"+c.Door+":"+c.Bad, "%s (%s): accepted=%v but the reference says on-curve-and-in-range=%v for class %s (x=%x y=%x)", c.Door, c.Curve, accepted, want, c.Bad, x, y)
		}
		if accepted && (gx.Cmp(x) != 0 || gy.Cmp(y) != 0) {
			return fail("door-changed", "%s returned other coordinates than it was given", c.Door)
		}
	case "roundtrip":
		out.Label = fmt.Sprintf("roundtrip %s k=%s", c.Curve, c.KC)
		out.Nontrivial = true
		kk := new(big.Int).Mod(k, cv.Q)
		if kk.Sign() == 0 {
			kk = big.NewInt(1)
		}
		if c.KC == "short-x" || c.KC == "short-y" { // a point whose coordinates have different byte lengths (1 in 128 by chance)
			for i := 0; i < 20000; i++ {
				x, y := cv.EC.ScalarBaseMult(kk.Bytes())
				if (c.KC == "short-x" && x.BitLen() <= 248 && y.BitLen() > 248) || (c.KC == "short-y" && y.BitLen() <= 248 && x.BitLen() > 248) {
					break
				}
				kk = new(big.Int).Mod(add(kk, 1), cv.Q)
				if kk.Sign() == 0 {
					kk = big.NewInt(1)
				}
			}
		}
		p := crypto.ScalarBaseMult(cv.EC, kk)
		bz, err := json.Marshal(p)
		if err != nil {
			return fail("json-encode", "MarshalJSON: %v", err)
		}
		var back crypto.ECPoint
		if err := json.Unmarshal(bz, &back); err != nil {
			return fail("json-decode", "UnmarshalJSON of an encoded point: %v", err)
		}
		if !back.Equals(p) || !tss.SameCurve(back.Curve(), cv.EC) {
			return fail("json-roundtrip", "JSON round trip changed the point or its curve")
		}
		re, _ := json.Marshal(&back)
		if !bytes.Equal(re, bz) {
			return fail("json-reencode", "re-encoding the decoded point gives other bytes")
		}
		flat, err := crypto.FlattenECPoints([]*crypto.ECPoint{p, &back})
		if err != nil {
			return fail("flatten", "FlattenECPoints: %v", err)
		}
		un, err := crypto.UnFlattenECPoints(cv.EC, flat)
		if err != nil || len(un) != 2 || !un[0].Equals(p) || !un[1].Equals(p) {
			return fail("flatten-roundtrip", "flatten/unflatten changed the points: %v", err)
		}
		if c.Curve == "secp256k1" { // Gob means the global curve
			var buf bytes.Buffer
			if err := gob.NewEncoder(&buf).Encode(p); err != nil {
				return fail("gob-encode", "GobEncode: %v", err)
			}
			var g crypto.ECPoint
			if err := gob.NewDecoder(&buf).Decode(&g); err != nil || !g.Equals(p) || !tss.SameCurve(g.Curve(), cv.EC) {
				return fail("gob-roundtrip", "Gob round trip changed the point: %v", err)
			}
		}
	case "arith":
		out.Label = fmt.Sprintf("arith %s k=%s", c.Curve, c.KC)
		out.Nontrivial = c.KC != "rand"
		k2 := c.K2.Big()
		P := crypto.ScalarBaseMult(cv.EC, k2)
		watch.add("k", k)
		watch.add("k2", k2)
		watch.add("P", P.X(), P.Y())
		// ScalarBaseMult / ScalarMult against the reference (k not reduced by the harness)
		if rx, ry, ok := cv.refBaseMul(k); ok {
			if !ptEq(crypto.ScalarBaseMult(cv.EC, k), rx, ry) {
				return fail("basemult", "ScalarBaseMult(k) differs from the reference for k class %s", c.KC)
			}
		}
		if rx, ry, ok := cv.refMul(k, P.X(), P.Y()); ok {
			if !ptEq(P.ScalarMult(k), rx, ry) {
				return fail("scalarmult", "ScalarMult(k) differs from the reference for k class %s", c.KC)
			}
		}
		Q := crypto.ScalarBaseMult(cv.EC, add(new(big.Int).Mod(k, add(cv.Q, -1)), 1))
		if rx, ry, ok := cv.refAdd(P.X(), P.Y(), Q.X(), Q.Y()); ok {
			s, err := P.Add(Q)
			if err != nil || !ptEq(s, rx, ry) {
				return fail("add", "Add differs from the reference: %v", err)
			}
		}
		// doubling through Add
		if rx, ry, ok := cv.refAdd(P.X(), P.Y(), P.X(), P.Y()); ok {
			s, err := P.Add(P)
			if err != nil || !ptEq(s, rx, ry) {
				return fail("double", "P+P differs from the reference: %v", err)
			}
		}
	case "laws":
		out.Label = fmt.Sprintf("laws %s k=%s", c.Curve, c.KC)
		out.Nontrivial = true
		a := new(big.Int).Mod(k, cv.Q)
		b := new(big.Int).Mod(c.K2.Big(), cv.Q)
		if a.Sign() == 0 || b.Sign() == 0 || new(big.Int).Mod(new(big.Int).Add(a, b), cv.Q).Sign() == 0 || new(big.Int).Mod(mul(a, b), cv.Q).Sign() == 0 {
			out.Skip = true
			return out
		}
		P, Q := crypto.ScalarBaseMult(cv.EC, a), crypto.ScalarBaseMult(cv.EC, b)
		watch.add("a", a)
		watch.add("b", b)
		watch.add("P", P.X(), P.Y())
		watch.add("Q", Q.X(), Q.Y())
		// Equals is coordinate equality (the laws below lean on it): equal to an independent copy, different
		// from its negative, from a point sharing only x or only y, and from another point
		negP := crypto.NewECPointNoCurveCheck(cv.EC, P.X(), new(big.Int).Sub(cv.P, P.Y()))
		if c.Curve == "ed25519" {
			negP = crypto.NewECPointNoCurveCheck(cv.EC, new(big.Int).Sub(cv.P, P.X()), P.Y())
		}
		cp := crypto.NewECPointNoCurveCheck(cv.EC, new(big.Int).Set(P.X()), new(big.Int).Set(P.Y()))
		if !P.Equals(cp) || !cp.Equals(P) {
			return fail("equals", "a point does not equal an independent copy of itself")
		}
		if P.Equals(negP) || negP.Equals(P) {
			return fail("equals", "a point equals its negative")
		}
		if a.Cmp(b) != 0 && P.X().Cmp(Q.X()) != 0 && P.Y().Cmp(Q.Y()) != 0 &&
			(P.Equals(crypto.NewECPointNoCurveCheck(cv.EC, P.X(), Q.Y())) || P.Equals(crypto.NewECPointNoCurveCheck(cv.EC, Q.X(), P.Y()))) {
			return fail("equals", "a point equals a pair that shares only one coordinate with it")
		}
		if a.Cmp(b) != 0 && (P.Equals(Q) || Q.Equals(P)) {
			return fail("equals", "two different points are equal")
		}
		// P + (-P): the neutral element -- (0,1) on edwards25519; on secp256k1 it has no affine form, so the only
		// right answer is an error
		if s, err := P.Add(negP); c.Curve == "ed25519" {
			if err != nil || !ptEq(s, big.NewInt(0), big.NewInt(1)) {
				return fail("inverse", "P + (-P) is not the neutral element (0,1): %v err=%v", s, err)
			}
		} else if err == nil {
			return fail("inverse", "P + (-P) returned the point (%x,%x) instead of an error (the sum is the point at infinity)", s.X(), s.Y())
		}
		if s2, err := negP.Add(P); c.Curve == "ed25519" && (err != nil || !ptEq(s2, big.NewInt(0), big.NewInt(1))) {
			return fail("inverse", "(-P) + P is not the neutral element")
		} else if c.Curve != "ed25519" && err == nil {
			return fail("inverse", "(-P) + P returned a point instead of an error")
		}
		// P + P agrees with 2P
		if d, err := P.Add(cp); err != nil || !ptEq(d, P.ScalarMult(big.NewInt(2)).X(), P.ScalarMult(big.NewInt(2)).Y()) {
			return fail("doubling", "P + P != 2P (err=%v)", err)
		}
		pq, err1 := P.Add(Q)
		qp, err2 := Q.Add(P)
		if err1 != nil || err2 != nil || !pq.Equals(qp) {
			return fail("commutativity", "P+Q != Q+P")
		}
		if !pq.Equals(crypto.ScalarBaseMult(cv.EC, new(big.Int).Mod(new(big.Int).Add(a, b), cv.Q))) {
			return fail("homomorphism", "aG + bG != (a+b)G")
		}
		// a(bG) == (ab)G with the product left unreduced
		if !Q.ScalarMult(a).Equals(crypto.ScalarBaseMult(cv.EC, new(big.Int).Mod(mul(a, b), cv.Q))) {
			return fail("scalar-assoc", "a(bG) != (ab mod q)G")
		}
		if !Q.ScalarMult(a).Equals(crypto.ScalarBaseMult(cv.EC, b).ScalarMult(a)) || !crypto.ScalarBaseMult(cv.EC, mul(a, b)).Equals(Q.ScalarMult(a)) {
			return fail("scalar-unreduced", "(ab)G with the product unreduced differs from a(bG)")
		}
		// (k+q)P == kP
		if !P.ScalarMult(new(big.Int).Add(b, cv.Q)).Equals(P.ScalarMult(b)) {
			return fail("order", "(k+q)P != kP")
		}
		// k(P+Q) = kP + kQ
		kpq := pq.ScalarMult(b)
		s, err := P.ScalarMult(b).Add(Q.ScalarMult(b))
		if err != nil || !kpq.Equals(s) {
			return fail("distributivity", "k(P+Q) != kP + kQ")
		}
	case "torsion":
		if c.Curve != "ed25519" {
			out.Skip = true
			return out
		}
		out.Label = fmt.Sprintf("torsion T=%d k=%s", c.Tor, c.KC)
		out.Nontrivial = true
		kk := new(big.Int).Mod(k, cv.Q)
		if kk.Sign() == 0 {
			kk = big.NewInt(3)
		}
		P := crypto.ScalarBaseMult(cv.EC, kk)
		if !P.EightInvEight().Equals(P) {
			return fail("eightinv-prime-order", "EightInvEight changed a prime-order point")
		}
		tp := ref.Ed.Torsion()[c.Tor]
		sum := ref.Ed.Add(ref.Point{X: P.X(), Y: P.Y()}, tp)
		mixed, err := crypto.NewECPoint(cv.EC, sum.X, sum.Y)
		if err != nil {
			return fail("torsion-door", "a valid curve point (prime-order point + torsion point) was refused: %v", err)
		}
		if !ptEq(mixed.EightInvEight(), P.X(), P.Y()) {
			return fail("eightinv-torsion", "EightInvEight(P + T) != P for torsion point %d", c.Tor)
		}
		// a pure small-order point has nothing but its small-order component: the map sends it to the neutral element
		pure, err := crypto.NewECPoint(cv.EC, tp.X, tp.Y)
		if err != nil {
			return fail("torsion-door", "a valid curve point (torsion point %d) was refused: %v", c.Tor, err)
		}
		var img *crypto.ECPoint
		if p := mustNoPanic(func() { img = pure.EightInvEight() }); p != nil {
			return fail("eightinv-torsion", "EightInvEight panicked on torsion point %d: %v", c.Tor, p)
		}
		if !ptEq(img, big.NewInt(0), big.NewInt(1)) {
			return fail("eightinv-torsion", "EightInvEight(T) for the small-order point %d (%x,%x) is (%x,%x), not the neutral element", c.Tor, tp.X, tp.Y, img.X(), img.Y())
		}
	}
	return out
}

func TestC17Points(t *testing.T) {
	r := ev.New(t, "C17")
	ev.Drive(t, r, genC17, runC17)
}

// TestC17DoorMatrix: every door x every invalid class x both curves.
func TestC17DoorMatrix(t *testing.T) {
	r := ev.New(t, "C17")
	var cases []c17Case
	for _, curve := range []string{"secp256k1", "ed25519"} {
		for _, door := range c17Doors {
			for _, bad := range c17Bad {
				for tor := 0; tor < 2; tor++ {
					cases = append(cases, c17Case{Curve: curve, Op: "door", K1: "5", K2: H(fmt.Sprintf("%x", 1000+tor*77)), KC: "rand", Bad: bad, Door: door, Tor: tor * 3})
				}
			}
		}
	}
	ev.Each(t, r, cases, runC17)
	r.SetExhaustive(true)
}

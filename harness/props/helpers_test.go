package props

import (
	"encoding/hex"
	"fmt"
	"math/big"
	"os"
	"testing"

	"pgregory.net/rapid"

	"github.com/bnb-chain/tss-lib/v2/tss"

	"verif/harness/ev"
	"verif/harness/ref"
	"verif/harness/sim"
)

func TestMain(m *testing.M) {
	if err := ref.SelfTest(); err != nil {
		fmt.Println("HARNESS-SELFTEST-FAILED:", err)
		os.Exit(3)
	}
	os.Exit(m.Run())
}

// H is a big integer carried as lower-case hex in JSON cases ("" = 0).
type H string

func hx(v *big.Int) H {
	if v == nil {
		return "nil"
	}
	if v.Sign() < 0 {
		return H("-" + new(big.Int).Neg(v).Text(16))
	}
	return H(v.Text(16))
}

func (h H) Big() *big.Int {
	if h == "" {
		return new(big.Int)
	}
	v, ok := new(big.Int).SetString(string(h), 16)
	if !ok {
		panic("bad hex int " + string(h))
	}
	return v
}

func hxs(vs []*big.Int) []H {
	out := make([]H, len(vs))
	for i, v := range vs {
		out[i] = hx(v)
	}
	return out
}

func bigs(hs []H) []*big.Int {
	out := make([]*big.Int, len(hs))
	for i, h := range hs {
		out[i] = h.Big()
	}
	return out
}

// B is a byte string carried as hex in JSON cases.
type B string

func bx(b []byte) B { return B(hex.EncodeToString(b)) }
func (b B) Bytes() []byte {
	out, err := hex.DecodeString(string(b))
	if err != nil {
		panic(err)
	}
	return out
}

// drawBytes draws a byte string of length in [lo,hi].
func drawBytes(t *rapid.T, label string, lo, hi int) []byte {
	return rapid.SliceOfN(rapid.Byte(), lo, hi).Draw(t, label)
}

// drawBigBits draws a uniform-ish non-negative integer of at most `bits` bits.
func drawBigBits(t *rapid.T, label string, bits int) *big.Int {
	if bits <= 0 {
		return new(big.Int)
	}
	n := (bits + 7) / 8
	b := rapid.SliceOfN(rapid.Byte(), n, n).Draw(t, label)
	v := new(big.Int).SetBytes(b)
	if ex := n*8 - bits; ex > 0 {
		v.Rsh(v, uint(ex))
	}
	return v
}

// drawBelow draws an integer in [0, m) (m > 0), not perfectly uniform (mod reduction of a wider value).
func drawBelow(t *rapid.T, label string, m *big.Int) *big.Int {
	v := drawBigBits(t, label, m.BitLen()+16)
	return v.Mod(v, m)
}

var (
	one  = big.NewInt(1)
	two  = big.NewInt(2)
	zero = big.NewInt(0)
)

func add(a *big.Int, k int64) *big.Int { return new(big.Int).Add(a, big.NewInt(k)) }
func mul(a, b *big.Int) *big.Int       { return new(big.Int).Mul(a, b) }
func pow(a *big.Int, k int) *big.Int {
	r := big.NewInt(1)
	for i := 0; i < k; i++ {
		r.Mul(r, a)
	}
	return r
}

// boundaryBelow draws an element of [0,m) with a bias to the edges and to encodings with leading zero bytes.
// It returns the value and the class name.
func boundaryBelow(t *rapid.T, label string, m *big.Int) (*big.Int, string) {
	cls := rapid.SampledFrom([]string{"0", "1", "2", "m-1", "m-2", "half", "lead0", "short", "pow2", "rand", "rand", "rand"}).Draw(t, label+".class")
	var v *big.Int
	switch cls {
	case "0":
		v = big.NewInt(0)
	case "1":
		v = big.NewInt(1)
	case "2":
		v = big.NewInt(2)
	case "m-1":
		v = add(m, -1)
	case "m-2":
		v = add(m, -2)
	case "half":
		v = new(big.Int).Rsh(m, 1)
	case "lead0": // top byte(s) zero relative to the modulus' byte length
		drop := rapid.IntRange(8, 24).Draw(t, label+".drop")
		bits := m.BitLen() - drop
		if bits < 1 {
			bits = 1
		}
		v = drawBigBits(t, label+".v", bits)
	case "short":
		v = drawBigBits(t, label+".v", rapid.IntRange(1, 64).Draw(t, label+".bits"))
	case "pow2":
		k := rapid.IntRange(0, m.BitLen()-1).Draw(t, label+".k")
		v = new(big.Int).Lsh(big.NewInt(1), uint(k))
		if rapid.Bool().Draw(t, label+".minus") {
			v.Sub(v, big.NewInt(1))
		}
	default:
		v = drawBelow(t, label+".v", m)
	}
	if v.Sign() < 0 {
		v = big.NewInt(0)
	}
	if v.Cmp(m) >= 0 {
		v.Mod(v, m)
	}
	return v, cls
}

func mustNoPanic(f func()) (panicked interface{}) {
	defer func() {
		if r := recover(); r != nil {
			panicked = r
		}
	}()
	f()
	return nil
}

func refTorsion(i int) [2]*big.Int {
	tp := ref.Ed.Torsion()[i%8]
	return [2]*big.Int{tp.X, tp.Y}
}

func init() {
	// a party call that does not return is a violation of whatever property the case belongs to
	// ("every call returns"); the simulator's watchdog reports it through the recorder of the case in flight
	sim.OnHang = ev.ReportHang
}

// setGlobalCurve sets the deprecated process-global curve: the protocol's own curve, or (other) the curve
// the protocol does not use. Protocols take their curve from the parameters, so this must not matter.
func setGlobalCurve(edd, other bool) {
	if edd != other {
		tss.SetCurve(tss.Edwards())
	} else {
		tss.SetCurve(tss.S256())
	}
}

// bigWatch remembers values handed to the library and reports the first one that no longer has the value
// it had when it was registered (a result that aliases or overwrites an operand).
type bigWatch struct {
	names []string
	vals  []*big.Int
	was   []*big.Int
}

func (w *bigWatch) add(name string, vs ...*big.Int) {
	for i, v := range vs {
		if v == nil {
			continue
		}
		n := name
		if len(vs) > 1 {
			n = fmt.Sprintf("%s[%d]", name, i)
		}
		w.names, w.vals, w.was = append(w.names, n), append(w.vals, v), append(w.was, new(big.Int).Set(v))
	}
}

func (w *bigWatch) changed() string {
	for i := range w.vals {
		if w.vals[i].Cmp(w.was[i]) != 0 {
			return fmt.Sprintf("%s (was %v, now %v)", w.names[i], w.was[i], w.vals[i])
		}
	}
	return ""
}

// finish turns a changed operand into a violation of an otherwise passing outcome.
func (w *bigWatch) finish(out *ev.Outcome, what string) {
	if out.Err != nil || out.Skip {
		return
	}
	if ch := w.changed(); ch != "" {
		out.Err, out.Sig = fmt.Errorf("%s: an operand was modified by the call(s) it was passed to: %s", what, ch), "operand-modified"
	}
}

// pollWaitingFor makes the application-side call WaitingFor() on every party after every simulator step (an
// application may poll it at any time; it must be a pure observer).
func pollWaitingFor(net *sim.Net) {
	prev := net.AfterStep
	net.AfterStep = func(s sim.Step) {
		for _, nd := range net.Nodes {
			_ = nd.P.WaitingFor()
		}
		if prev != nil {
			prev(s)
		}
	}
}

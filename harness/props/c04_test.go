package props

// C04 — Resharing keeps the key, re-shares it correctly, retires old shares last.

import (
	"bytes"
	"fmt"
	"math/big"
	"strings"
	"sync"
	"sync/atomic"
	"testing"
	"time"

	eckeygen "github.com/bnb-chain/tss-lib/v2/ecdsa/keygen"
	edkeygen "github.com/bnb-chain/tss-lib/v2/eddsa/keygen"
	"pgregory.net/rapid"

	"verif/harness/ev"
	"verif/harness/ref"
	"verif/harness/sim"
)

// in-memory key registry (chains of resharings feed one run's output into the next)
var (
	memMu   sync.Mutex
	memEC   = map[string][]eckeygen.LocalPartySaveData{}
	memED   = map[string][]edkeygen.LocalPartySaveData{}
	memKeys = map[string][]*big.Int{}
)

func init() {
	resolveMemEC = func(id string) ([]eckeygen.LocalPartySaveData, []*big.Int) {
		memMu.Lock()
		defer memMu.Unlock()
		return memEC[id], memKeys[id]
	}
	resolveMemED = func(id string) ([]edkeygen.LocalPartySaveData, []*big.Int) {
		memMu.Lock()
		defer memMu.Unlock()
		return memED[id], memKeys[id]
	}
}

type c04Stage struct {
	Old     []int // participating old members (indices into the current committee)
	NewKeys []H
	NewT    int
}

type c04Case struct {
	EdDSA       bool
	Key         keyChoice
	Stages      []c04Stage // chain of resharings
	Proofs      bool
	Sched       SchedSpec
	Cut         string // "", "prefix", "silent", "announce-wrong-key"
	CutAt       int
	CutWho      int
	Sign        bool
	Salt        int
	Poll        bool   `json:",omitempty"` // the application polls WaitingFor() on every party after every step
	ProofMode   string `json:",omitempty"` // ECDSA: "mod" / "fac": only that proof is switched on (overrides Proofs)
	IDStyle     string `json:",omitempty"` // "", "blank", "shared": free-form id strings of the parties
	OtherGlobal bool   `json:",omitempty"` // process-global curve set to the curve this resharing does not use
	GenPre      []int  `json:",omitempty"` // ECDSA, last stage: new members that let the library generate their pre-parameters
}

func genC04(edd bool) func(t *rapid.T) c04Case {
	return func(t *rapid.T) c04Case {
		c := c04Case{EdDSA: edd, Key: genKeyChoice(t, edd)}
		q := ref.Secp.N
		maxN := 4
		if edd {
			q = ref.Ed.L
			maxN = 6
		}
		nStages := rapid.SampledFrom([]int{1, 1, 1, 2, 2, 3}).Draw(t, "chain")
		if !edd && nStages == 3 {
			nStages = 2
		}
		curN, curT := c.Key.N, c.Key.T
		usedKeys := map[string]bool{}
		var oldKeys []*big.Int
		if edd {
			_, oldKeys, _, _ = c.Key.resolveED()
		} else {
			_, oldKeys, _ = c.Key.resolveEC()
		}
		for _, k := range oldKeys { // new party ids must be distinct from the old committee's
			usedKeys[k.String()] = true
		}
		for s := 0; s < nStages; s++ {
			st := c04Stage{Old: genSigners(t, curN, curT)}
			nn := rapid.IntRange(2, maxN).Draw(t, "newN")
			st.NewT = rapid.IntRange(1, nn-1).Draw(t, "newT")
			// fresh party keys, distinct from every key used so far in the chain (old ids are excluded at build time too)
			pat := rapid.SampledFrom([]string{"random256", "gt-q", "huge", "near-q"}).Draw(t, "newpat")
			salt := rapid.IntRange(0, 1<<20).Draw(t, "newsalt")
			ks := detPartyKeys(pat, nn, q, fmt.Sprintf("c04/%d/%d/%d", s, salt, nn))
			for i := range ks {
				for usedKeys[ks[i].String()] {
					ks[i] = add(ks[i], 1000003)
				}
				usedKeys[ks[i].String()] = true
			}
			st.NewKeys = hxs(ks)
			c.Stages = append(c.Stages, st)
			curN, curT = nn, st.NewT
		}
		c.Proofs = !edd && rapid.Bool().Draw(t, "proofs")
		if !edd {
			c.ProofMode = rapid.SampledFrom([]string{"", "", "", "mod", "fac"}).Draw(t, "proofMode")
		}
		nodes := len(c.Stages[0].Old) + len(c.Stages[0].NewKeys)
		c.Sched = genSched(t, nodes, schedNoDup)
		c.Cut = rapid.SampledFrom([]string{"", "", "", "prefix", "prefix", "silent", "silent", "announce-wrong-key"}).Draw(t, "cut")
		c.CutAt = rapid.IntRange(0, 120).Draw(t, "cutAt")
		c.CutWho = rapid.IntRange(0, nodes-1).Draw(t, "cutWho")
		c.Sign = edd || rapid.IntRange(0, 2).Draw(t, "sign") == 0
		c.Salt = rapid.IntRange(0, 1<<20).Draw(t, "salt")
		c.OtherGlobal = rapid.IntRange(0, 2).Draw(t, "otherGlobal") == 0
		c.Poll = rapid.Bool().Draw(t, "poll")
		c.IDStyle = rapid.SampledFrom([]string{"", "", "", "blank", "shared"}).Draw(t, "idStyle")
		return c
	}
}

func ackType(edd bool) string {
	if edd {
		return pDR + "DGRound4Message"
	}
	return pER + "DGRound4Message2"
}

// reshareInvariant installs the per-step history invariant on a resharing run.
type reshareWatch struct {
	x        *runCtx
	acked    bool
	ackStep  int
	viol     *runProblem
	xiBefore []*big.Int
}

func watchResharing(x *runCtx) *reshareWatch {
	w := &reshareWatch{x: x}
	edd := x.p.edd()
	for i := 0; i < x.nOld; i++ {
		if edd {
			w.xiBefore = append(w.xiBefore, new(big.Int).Set(x.heldED[i].Xi))
		} else {
			w.xiBefore = append(w.xiBefore, new(big.Int).Set(x.heldEC[i].Xi))
		}
	}
	prev := x.net.AfterStep
	x.net.AfterStep = func(s sim.Step) {
		if prev != nil {
			prev(s)
		}
		w.check()
	}
	return w
}

func (w *reshareWatch) ackedNow() bool {
	x := w.x
	at := ackType(x.p.edd())
	for _, nd := range x.net.Nodes[x.nOld:] {
		found := false
		for _, e := range nd.Emitted {
			if e.Type == at {
				found = true
			}
		}
		if !found {
			return false
		}
	}
	return true
}

func (w *reshareWatch) check() {
	if w.viol != nil || w.acked {
		return
	}
	x := w.x
	// evaluated on the state BEFORE this step's emissions count as acknowledgement: a party may erase /
	// emit only in a step after every new member's ACK is out; the ACK emission and an erase by the same
	// step are impossible for distinct parties, so checking "not acked yet" first is exact.
	nowAcked := w.ackedNow()
	if !nowAcked || !w.acked {
		// nothing may have happened yet that requires all ACKs
		for i := 0; i < x.nOld; i++ {
			var xi *big.Int
			if x.p.edd() {
				xi = x.heldED[i].Xi
			} else {
				xi = x.heldEC[i].Xi
			}
			if xi == nil || xi.Cmp(w.xiBefore[i]) != 0 {
				if !nowAcked {
					w.viol = &runProblem{"erased-before-ack", fmt.Sprintf("old member %d's caller-held share changed at step %d although not every new member has acknowledged", i, x.net.StepN)}
					return
				}
			}
		}
		for _, nd := range x.net.Nodes[x.nOld:] {
			if nd.Finished() && !nowAcked {
				w.viol = &runProblem{"output-before-ack", fmt.Sprintf("new member %d emitted key material at step %d although not every new member has acknowledged", nd.Idx, x.net.StepN)}
				return
			}
		}
		for _, nd := range x.net.Nodes[:x.nOld] {
			if nd.Finished() && !nowAcked {
				w.viol = &runProblem{"old-finished-before-ack", fmt.Sprintf("old member %d reported completion at step %d although not every new member has acknowledged", nd.Idx, x.net.StepN)}
				return
			}
		}
	}
	if nowAcked {
		w.acked = true
		w.ackStep = x.net.StepN
	}
}

func (w *reshareWatch) oldIntact() *runProblem {
	x := w.x
	for i := 0; i < x.nOld; i++ {
		var now, snap []byte
		var xi *big.Int
		var bx, by *big.Int
		if x.p.edd() {
			now, snap = jsonOf(x.heldED[i]), x.snapED[i]
			xi = x.heldED[i].Xi
			idx, _ := x.heldED[i].OriginalIndex()
			bx, by = x.heldED[i].BigXj[idx].X(), x.heldED[i].BigXj[idx].Y()
		} else {
			now, snap = jsonOf(x.heldEC[i]), x.snapEC[i]
			xi = x.heldEC[i].Xi
			idx, _ := x.heldEC[i].OriginalIndex()
			bx, by = x.heldEC[i].BigXj[idx].X(), x.heldEC[i].BigXj[idx].Y()
		}
		if !bytes.Equal(now, snap) {
			return &runProblem{"old-data-changed", fmt.Sprintf("old member %d's key data differs from its snapshot although the run stopped before every new member acknowledged", i)}
		}
		gx, gy, ok := x.cv.refBaseMul(new(big.Int).Mod(xi, x.cv.Q))
		if !ok || gx.Cmp(bx) != 0 || gy.Cmp(by) != 0 {
			return &runProblem{"old-data-unusable", fmt.Sprintf("old member %d's share no longer matches its public share point", i)}
		}
	}
	return nil
}

// signWith runs a signing session with the given committee data and checks the signature under pub.
func signWith(edd bool, ec []eckeygen.LocalPartySaveData, ed []edkeygen.LocalPartySaveData, members []int, t int, pubX, pubY *big.Int, salt int) *runProblem {
	msg := new(big.Int).Lsh(big.NewInt(int64(0x1000+salt%1000)), 64)
	cfg := sim.SignCfg{EdDSA: edd, T: t, Msg: msg, FullBytesLen: -1}
	for _, i := range members {
		if edd {
			cfg.EDKeys = append(cfg.EDKeys, ed[i])
		} else {
			cfg.ECKeys = append(cfg.ECKeys, ec[i])
		}
	}
	net, _, _ := sim.NewSigning(cfg)
	net.Run(sim.FIFO{}, 100000)
	if e := honestRunProblems(net); e != nil {
		return &runProblem{"sign-after:" + e.sig, "signing with the key data failed: " + e.msg}
	}
	for _, nd := range net.Nodes {
		var err error
		if edd {
			err = checkEdDSASig(nd.Sigs[0], pubX, pubY, msg.Bytes())
		} else {
			err = checkECDSASig(nd.Sigs[0], pubX, pubY, msg, -1)
		}
		if err != nil {
			return &runProblem{"sign-after:signature", "signature produced with the key data is invalid under the group key: " + err.Error()}
		}
	}
	return nil
}

func runC04(c c04Case) ev.Outcome {
	proto := "ecdsa-resharing"
	if c.EdDSA {
		proto = "eddsa-resharing"
	}
	out := ev.Outcome{}
	fail := func(sig, f string, a ...interface{}) ev.Outcome {
		out.Err, out.Sig = fmt.Errorf(f, a...), sig
		return out
	}
	key := c.Key
	curT := c.Key.T
	var desc []string
	for si, st := range c.Stages {
		last := si == len(c.Stages)-1
		run := protoRun{Proto: proto, Key: key, Members: st.Old, NewKeys: st.NewKeys, NewT: st.NewT, Proofs: c.Proofs, OtherGlobalCurve: c.OtherGlobal, IDStyle: c.IDStyle, ProofMode: c.ProofMode}
		if si == len(c.Stages)-1 {
			run.GenPre = c.GenPre
		}
		desc = append(desc, fmt.Sprintf("|old|=%d/t=%d->n'=%d/t'=%d", len(st.Old), curT, len(st.NewKeys), st.NewT))
		x := run.build()
		if c.Poll {
			pollWaitingFor(x.net)
		}
		w := watchResharing(x)
		mon := newMonitor(proto, x.net)
		_ = mon
		cut := ""
		if last {
			cut = c.Cut
		}
		if cut == "announce-wrong-key" {
			tamperAnnouncedKey(x)
		}
		if si == 0 {
			c.Sched.apply(x.net)
		}
		sched := sim.Scheduler(sim.FIFO{})
		if si == 0 {
			sched = c.Sched.Make()
		}
		switch cut {
		case "prefix":
			x.net.Run(sched, c.CutAt)
		case "silent":
			who := c.CutWho % len(x.net.Nodes)
			at := c.CutAt
			prev := x.net.AfterStep
			x.net.AfterStep = func(s sim.Step) {
				if x.net.StepN >= at {
					x.net.Nodes[who].Silent = true
				}
				if prev != nil {
					prev(s)
				}
			}
			if at == 0 {
				x.net.Nodes[who].Silent = true
			}
			x.net.Run(sched, 100000)
		default:
			x.net.Run(sched, 100000)
		}
		if w.viol != nil {
			out = labelC04(out, c, desc, w)
			return failProblem(&out, w.viol, proto)
		}
		complete := x.net.Quiescent() && x.net.AllFinished()
		switch {
		case cut == "announce-wrong-key":
			for _, nd := range x.net.Nodes[x.nOld:] {
				if nd.Finished() {
					out = labelC04(out, c, desc, w)
					return fail("accepted-wrong-key", "new member %d emitted key data although old member 0 announced a public key the shares do not combine to", nd.Idx)
				}
			}
			if e := w.oldIntact(); e != nil && !w.acked {
				out = labelC04(out, c, desc, w)
				return failProblem(&out, e, proto)
			}
			out = labelC04(out, c, desc, w)
			out.Nontrivial = true
			return out
		case !complete:
			out = labelC04(out, c, desc, w)
			out.Nontrivial = true
			for _, nd := range x.net.Nodes {
				if nd.Errored() {
					return fail("error", "party %d returned an error in an honest (cut) run: %v", nd.Idx, nd.Errs[0])
				}
			}
			if cut == "" {
				if e := honestRunProblems(x.net); e != nil {
					return failProblem(&out, e, proto)
				}
			}
			if !w.acked {
				if e := w.oldIntact(); e != nil {
					return failProblem(&out, e, proto)
				}
				// the old committee can still sign with its data (sampled: signing is expensive on ECDSA)
				if c.Sign {
					if e := signWith(c.EdDSA, x.heldEC, x.heldED, seq(x.nOld)[:curT+1], curT, x.pubX, x.pubY, c.Salt); e != nil {
						return failProblem(&out, e, proto)
					}
				}
			} else {
				// all new members acknowledged: whatever new members have emitted must be valid
				only := map[int]bool{}
				for _, nd := range x.net.Nodes[x.nOld:] {
					if nd.Finished() {
						only[nd.Idx] = true
					}
				}
				if e := x.judgeNewCommittee(only); e != nil {
					return failProblem(&out, e, proto)
				}
			}
			return out
		}
		// completed stage
		if e := x.judge(); e != nil {
			out = labelC04(out, c, desc, w)
			return failProblem(&out, e, proto)
		}
		mon.Finish(true)
		// feed the next stage / sign
		id := fmt.Sprintf("c04/%d/%d", c.Salt, si)
		memMu.Lock()
		if c.EdDSA {
			var d []edkeygen.LocalPartySaveData
			for _, nd := range x.net.Nodes[x.nOld:] {
				d = append(d, *nd.EDKeys[0])
			}
			memED[id] = d
		} else {
			var d []eckeygen.LocalPartySaveData
			for _, nd := range x.net.Nodes[x.nOld:] {
				d = append(d, *nd.ECKeys[0])
			}
			memEC[id] = d
		}
		memKeys[id] = x.newIDs.Keys()
		memMu.Unlock()
		key = keyChoice{Src: "mem", N: len(st.NewKeys), T: st.NewT, Pattern: "reshared", Seed: id}
		curT = st.NewT
		if last && c.Sign {
			ecd, _ := resolveMemEC(id)
			edd, _ := resolveMemED(id)
			members := seq(len(st.NewKeys))
			// a (t'+1)-subset chosen by the salt
			off := c.Salt % len(members)
			rot := append(append([]int{}, members[off:]...), members[:off]...)
			if e := signWith(c.EdDSA, ecd, edd, rot[:st.NewT+1], st.NewT, x.pubX, x.pubY, c.Salt); e != nil {
				out = labelC04(out, c, desc, w)
				return failProblem(&out, e, proto)
			}
		}
		if last {
			out = labelC04(out, c, desc, w)
		}
	}
	// clean the registry
	memMu.Lock()
	for si := range c.Stages {
		id := fmt.Sprintf("c04/%d/%d", c.Salt, si)
		delete(memEC, id)
		delete(memED, id)
		delete(memKeys, id)
	}
	memMu.Unlock()
	return out
}

func failProblem(out *ev.Outcome, p *runProblem, proto string) ev.Outcome {
	out.Err = fmt.Errorf("%s", p.msg)
	out.Sig = p.sig + ":" + proto
	return *out
}

func labelC04(out ev.Outcome, c c04Case, desc []string, w *reshareWatch) ev.Outcome {
	proto := "ecdsa"
	if c.EdDSA {
		proto = "eddsa"
	}
	cut := c.Cut
	if cut == "prefix" || cut == "silent" {
		if w.acked {
			cut += "-after-ack"
		} else {
			cut += "-before-ack"
		}
	}
	out.Label = fmt.Sprintf("reshare %s %s chain=%s proofs=%v sched=%s cut=%s sign=%v", proto, c.Key, strings.Join(desc, ","), c.Proofs, c.Sched.Class(), cut, c.Sign)
	if c.OtherGlobal {
		out.Label += " global-curve=other"
	}
	if c.IDStyle != "" {
		out.Label += " id-strings=" + c.IDStyle
	}
	if c.Poll {
		out.Label += " polled"
	}
	if c.ProofMode != "" {
		out.Label += " only-proof=" + c.ProofMode
	}
	first := c.Stages[0]
	out.Nontrivial = c.Cut != "" || first.NewT != c.Key.T || len(first.Old) > c.Key.T+1 || c.Proofs || len(c.Stages) > 1
	return out
}

// tamperAnnouncedKey: old member 0 announces another (valid) public key in its round-1 broadcast, to all recipients alike.
func tamperAnnouncedKey(x *runCtx) {
	x.net.OnCreate = func(d *sim.Delivery) bool {
		if d.E.From != 0 || !strings.HasSuffix(d.E.Type, "DGRound1Message") {
			return true
		}
		d.Bytes = rewriteAnnouncedKey(x, d.E)
		d.Parsed = nil
		d.Tag = "tampered"
		return true
	}
}

func TestC04ReshareEdDSA(t *testing.T) {
	r := ev.New(t, "C04")
	ev.Drive(t, r, genC04(true), runC04)
}

func TestC04ReshareECDSA(t *testing.T) {
	r := ev.New(t, "C04")
	ev.Drive(t, r, genC04(false), runC04)
}

// TestC04GeneratedPreParams: new members that pass no pre-parameters (the library generates Paillier key and
// ring-Pedersen parameters itself, inside round 2) with the production proofs on. Expensive (two 2048-bit
// moduli per such member), hence a list: one case in the quick tier, several in the thorough tier.
func TestC04GeneratedPreParams(t *testing.T) {
	r := ev.New(t, "C04")
	q := ref.Secp.N
	mkCase := func(k int, gen []int, nNew, newT int) c04Case {
		return c04Case{Key: keyChoice{Src: "dealer", N: 3, T: 1, Pattern: "random256", Seed: fmt.Sprintf("%d", k)},
			Stages: []c04Stage{{Old: []int{0, 1, 2}[:2+k%2], NewKeys: hxs(detPartyKeys("random256", nNew, q, fmt.Sprintf("c04-gen/%d/%d", ev.Seed(), k))), NewT: newT}},
			Proofs: true, Sched: SchedSpec{Kind: "fifo"}, Sign: true, Salt: k, GenPre: gen}
	}
	cases := []c04Case{mkCase(0, []int{int(ev.Seed() % 3)}, 3, 1)}
	if ev.Tier() == "thorough" {
		cases = append(cases, mkCase(1, []int{0, 1, 2}, 3, 2), mkCase(2, []int{1}, 2, 1), mkCase(3, []int{0, 3}, 4, 2))
	}
	ev.Each(t, r, cases, func(c c04Case) ev.Outcome {
		out := runC04(c)
		out.Label += fmt.Sprintf(" generated-preparams=%v", c.GenPre)
		out.Nontrivial = true
		return out
	})
}

// TestC04RetiringMemberBlockedEnd: an application that collects the retiring members' results late. The old
// members' result channels are unbuffered and read by nobody, so each retiring member's final call blocks on
// its report. At that moment its share must already be erased ("old shares are retired last", but before the
// member reports that it is done). The simulator runs on its own goroutine; this goroutine watches for a call
// that stays inside an old member while no step completes, judges, then collects the result to release it.
func TestC04RetiringMemberBlockedEnd(t *testing.T) {
	r := ev.New(t, "C04")
	type blocked struct {
		EdDSA bool
		Seed  int
	}
	cases := []blocked{{true, 0}, {false, 0}}
	ev.Each(t, r, cases, func(c blocked) ev.Outcome {
		proto := map[bool]string{true: "eddsa-resharing", false: "ecdsa-resharing"}[c.EdDSA]
		out := ev.Outcome{Label: "retiring members with unread result channels " + proto, Nontrivial: true}
		run := fixedRun(proto, 3, 1, 1)
		sim.IDStyle = ""
		setGlobalCurve(c.EdDSA, false)
		q := ref.Secp.N
		if c.EdDSA {
			q = ref.Ed.L
		}
		var oldEC []eckeygen.LocalPartySaveData
		var oldED []edkeygen.LocalPartySaveData
		cfg := sim.ReshareCfg{EdDSA: c.EdDSA, OldT: run.Key.T, NewKeys: detPartyKeys("random256", 3, q, "c04-blocked"), NewT: 1, NoProofMod: true, NoProofFac: true, OldEndUnbuffered: true}
		if c.EdDSA {
			data, _, _, _ := run.Key.resolveED()
			for _, i := range run.Members {
				oldED = append(oldED, deepCopyED(data[i]))
			}
			cfg.OldED = oldED
		} else {
			data, _, _ := run.Key.resolveEC()
			for _, i := range run.Members {
				oldEC = append(oldEC, deepCopyEC(data[i]))
			}
			cfg.OldEC = oldEC
			cfg.NewPre = preParams()[:3]
		}
		net, oldIDs, _, kidx := sim.NewResharing(cfg)
		net.CallBudget = 24 * time.Hour // blocking is expected here; this test has its own observer
		xiOf := func(node int) *big.Int {
			if c.EdDSA {
				return oldED[kidx[node]].Xi
			}
			return oldEC[kidx[node]].Xi
		}
		done := make(chan struct{})
		go func() { net.Run(sim.FIFO{}, 200000); close(done) }()
		released := 0
		deadline := time.Now().Add(10 * time.Minute)
		for {
			select {
			case <-done:
				if released == 0 {
					out.Label = "uncalibrated " + out.Label + " (no retiring member ever blocked on its report)"
					out.Nontrivial = false
				}
				return out
			default:
			}
			if time.Now().After(deadline) {
				out.Label = "inconclusive " + out.Label
				out.Nontrivial = false
				return out
			}
			// a call that stays inside an old member while no step completes for 300 polls of 10 ms
			steps, node := atomic.LoadInt64(&net.Steps), atomic.LoadInt32(&net.InCall)
			stuck := node > 0 && int(node-1) < len(oldIDs)
			for i := 0; i < 300 && stuck; i++ {
				time.Sleep(10 * time.Millisecond)
				stuck = atomic.LoadInt64(&net.Steps) == steps && atomic.LoadInt32(&net.InCall) == node
			}
			if !stuck {
				time.Sleep(10 * time.Millisecond)
				continue
			}
			idx := int(node - 1)
			if xiOf(idx).Sign() != 0 && out.Err == nil {
				out.Err = fmt.Errorf("%s: retiring member %d is blocked reporting its completion (nobody reads its result channel yet) while its old share is still intact", proto, idx)
				out.Sig = "reported-before-erasing:" + proto
			}
			// collect the result: the call returns and the run goes on
			_, ecK, edK, _ := sim.Channels(net.Nodes[idx])
			select {
			case <-ecK:
			case <-edK:
			case <-time.After(30 * time.Second):
			}
			released++ // (after a violation the remaining members are still released, so that the run can end)
		}
	})
}

package props

// C03 — Key generation yields a consistent (t,n) sharing of one key.

import (
	"fmt"
	"math/big"
	"testing"
	"time"

	eckeygen "github.com/bnb-chain/tss-lib/v2/ecdsa/keygen"
	edkeygen "github.com/bnb-chain/tss-lib/v2/eddsa/keygen"
	"github.com/bnb-chain/tss-lib/v2/tss"
	"pgregory.net/rapid"

	"verif/harness/ev"
	"verif/harness/ref"
	"verif/harness/sim"
)

type c03Case struct {
	EdDSA       bool
	N, T        int
	Pattern     string
	Keys        []H
	Bad         string // "", "zero-mod-q", "congruent"
	Sched       SchedSpec
	PrePerm     []int
	ProofMode   string `json:",omitempty"` // ECDSA: "mod" / "fac": only that proof is switched on, "none": neither
	IDStyle     string `json:",omitempty"` // "", "blank", "shared": free-form id strings of the parties
	Poll        bool   `json:",omitempty"` // the application polls WaitingFor() on every party after every step
	OtherGlobal bool   `json:",omitempty"` // process-global curve set to the curve this key generation does not use
	GenPre      []int  `json:",omitempty"` // ECDSA: sorted party indices that pass no pre-parameters (the library generates them)
}

func genC03(edd bool) func(t *rapid.T) c03Case {
	return func(t *rapid.T) c03Case {
		c := c03Case{EdDSA: edd}
		maxN := 5
		q := ref.Secp.N
		if edd {
			maxN = 8
			q = ref.Ed.L
		}
		c.N = rapid.IntRange(2, maxN).Draw(t, "n")
		c.T = rapid.IntRange(1, c.N-1).Draw(t, "t")
		c.Keys, c.Pattern = genPartyKeys(t, c.N, q)
		c.Bad = rapid.SampledFrom([]string{"", "", "", "", "", "", "", "zero-mod-q", "congruent"}).Draw(t, "bad")
		if c.Bad != "" {
			ks := bigs(c.Keys)
			i := rapid.IntRange(0, c.N-1).Draw(t, "badI")
			j := (i + 1) % c.N
			switch c.Bad {
			case "zero-mod-q":
				ks[i] = mul(q, big.NewInt(int64(rapid.IntRange(1, 3).Draw(t, "mult"))))
			case "congruent":
				ks[i] = new(big.Int).Add(ks[j], q)
			}
			c.Keys = hxs(ks)
		}
		c.Sched = genSched(t, c.N, schedNoDup)
		c.PrePerm = rapid.Permutation([]int{0, 1, 2, 3, 4}).Draw(t, "preperm")
		c.OtherGlobal = rapid.IntRange(0, 2).Draw(t, "otherGlobal") == 0
		c.IDStyle = rapid.SampledFrom([]string{"", "", "", "blank", "shared"}).Draw(t, "idStyle")
		c.Poll = rapid.Bool().Draw(t, "poll")
		if !edd {
			c.ProofMode = rapid.SampledFrom([]string{"", "", "", "mod", "fac", "none"}).Draw(t, "proofMode")
		}
		return c
	}
}

// firstCommittedPoints reads V_i0 = u_i*G of every party from the wire (round-2 decommitment broadcast).
func firstCommittedPoints(net *sim.Net, edd bool) ([][2]*big.Int, error) {
	out := make([][2]*big.Int, len(net.Nodes))
	for _, e := range net.Emits {
		pm, ok := e.Msg.(tss.ParsedMessage)
		if !ok {
			continue
		}
		var dc [][]byte
		switch m := pm.Content().(type) {
		case *eckeygen.KGRound2Message2:
			dc = m.GetDeCommitment()
		case *edkeygen.KGRound2Message2:
			dc = m.GetDeCommitment()
		default:
			continue
		}
		if len(dc) < 3 {
			return nil, fmt.Errorf("decommitment of party %d too short", e.From)
		}
		out[e.From] = [2]*big.Int{new(big.Int).SetBytes(dc[1]), new(big.Int).SetBytes(dc[2])}
	}
	for i := range out {
		if out[i][0] == nil {
			return nil, fmt.Errorf("no round-2 decommitment seen from party %d", i)
		}
	}
	return out, nil
}

func runC03(c c03Case) (out ev.Outcome) {
	cv := getCurve("secp256k1")
	if c.EdDSA {
		cv = getCurve("ed25519")
	}
	proto := "ecdsa"
	if c.EdDSA {
		proto = "eddsa"
	}
	out = ev.Outcome{Label: fmt.Sprintf("keygen %s n=%d t=%d keys=%s bad=%s sched=%s", proto, c.N, c.T, c.Pattern, c.Bad, c.Sched.Class())}
	out.Nontrivial = !(c.N == 5 && c.T == 2 && c.Pattern == "random256" && c.Sched.Kind == "fifo")
	fail := func(sig, f string, a ...interface{}) ev.Outcome {
		out.Err, out.Sig = fmt.Errorf(f, a...), sig
		return out
	}
	setGlobalCurve(c.EdDSA, c.OtherGlobal)
	sim.IDStyle = c.IDStyle
	if c.IDStyle != "" {
		defer func() { out.Label += " id-strings=" + c.IDStyle }()
	}
	if c.OtherGlobal {
		out.Label += " global-curve=other"
	}
	cfg := sim.KeygenCfg{EdDSA: c.EdDSA, Keys: bigs(c.Keys), T: c.T}
	if c.ProofMode != "" {
		cfg.NoProofMod, cfg.NoProofFac = c.ProofMode != "mod", c.ProofMode != "fac"
		out.Label += " only-proof=" + c.ProofMode
	}
	if !c.EdDSA {
		pre := preParams()
		for i := 0; i < c.N; i++ {
			cfg.Pre = append(cfg.Pre, pre[c.PrePerm[i]])
		}
		for _, g := range c.GenPre {
			cfg.Pre[g] = eckeygen.LocalPreParams{}
		}
	}
	net, ids := sim.NewKeygen(cfg)
	if len(c.GenPre) > 0 {
		net.CallBudget = 3 * time.Hour // pre-parameter generation happens inside Start
	}
	c.Sched.apply(net)
	if c.Poll {
		pollWaitingFor(net)
		defer func() { out.Label += " polled" }()
	}
	if c.Bad != "" {
		// inadmissible key set: every Start refuses, nothing is emitted, no key data
		net.Run(sim.FIFO{}, 1000)
		for _, nd := range net.Nodes {
			if nd.StartErr == nil {
				return fail("inadmissible-accepted", "party %d started with an inadmissible party-key set (%s)", nd.Idx, c.Bad)
			}
			if nd.Finished() {
				return fail("inadmissible-output", "party %d emitted key data for an inadmissible party-key set", nd.Idx)
			}
		}
		if len(net.Emits) != 0 {
			return fail("inadmissible-emits", "%d messages were sent although every Start was refused", len(net.Emits))
		}
		return out
	}
	net.Run(c.Sched.Make(), 20000)
	if len(net.EmitErrs) > 0 {
		return fail("routing", "routing problem: %s", net.EmitErrs[0])
	}
	for _, nd := range net.Nodes {
		if nd.Errored() {
			return fail("error", "party %d returned an error in an honest run: %v", nd.Idx, nd.Errs[0])
		}
	}
	if !net.Quiescent() {
		return fail("not-quiescent", "run did not reach quiescence in the step budget")
	}
	for _, nd := range net.Nodes {
		if nd.Results() == 0 {
			return fail("deadlock", "all messages delivered but party %d did not finish: %s", nd.Idx, describeNet(net))
		}
		if nd.Results() != 1 {
			return fail("multi-result", "party %d emitted %d results", nd.Idx, nd.Results())
		}
	}
	keys := ids.Keys()
	views := make([]*shareView, c.N)
	ecs := make([]*eckeygen.LocalPartySaveData, c.N)
	for i, nd := range net.Nodes {
		if c.EdDSA {
			v := viewED(nd.EDKeys[0])
			views[i] = &v
		} else {
			v := viewEC(nd.ECKeys[0])
			views[i] = &v
			ecs[i] = nd.ECKeys[0]
		}
		if views[i].Xi.Sign() < 0 || views[i].Xi.Cmp(cv.Q) >= 0 {
			return fail("xi-range", "party %d: share not in [0,q)", i)
		}
	}
	subs := combos(c.N, c.T+1)
	if len(subs) > 12 {
		step := len(subs) / 12
		var s2 [][]int
		for i := 0; i < len(subs); i += step {
			s2 = append(s2, subs[i])
		}
		subs = s2
	}
	// also a larger-than-minimal subset and the full set
	all := make([]int, c.N)
	for i := range all {
		all[i] = i
	}
	subs = append(subs, all)
	if err := checkSharing(cv, views, keys, c.T, subs); err != nil {
		return fail("sharing", "%v", err)
	}
	// no contribution dropped: group key = sum of every party's first committed point (read from the wire)
	v0s, err := firstCommittedPoints(net, c.EdDSA)
	if err != nil {
		return fail("wire", "%v", err)
	}
	coefs := make([]*big.Int, c.N)
	xs, ys := make([]*big.Int, c.N), make([]*big.Int, c.N)
	for i := range coefs {
		coefs[i] = big.NewInt(1)
		xs[i], ys[i] = v0s[i][0], v0s[i][1]
		if !cv.refOnCurve(xs[i], ys[i]) {
			return fail("wire", "party %d revealed an off-curve first commitment", i)
		}
	}
	sx, sy, ok := sumPoints(cv, xs, ys)
	if !ok || !ptEq(views[0].Pub, sx, sy) {
		return fail("contribution-dropped", "group public key is not the sum of all parties' committed contributions u_i*G")
	}
	if !c.EdDSA {
		if err := checkECAux(ecs); err != nil {
			return fail("aux", "%v", err)
		}
		// saved pre-parameters are the ones supplied
		for i, k := range ecs {
			sup := cfg.Pre[i]
			if sup.PaillierSK == nil { // generated by the library: the full structure must hold
				if err := checkPreParams(&k.LocalPreParams); err != nil {
					return fail("preparams", "party %d generated and saved pre-parameters of the wrong structure: %v", i, err)
				}
				continue
			}
			if k.PaillierSK.N.Cmp(sup.PaillierSK.N) != 0 || k.NTildei.Cmp(sup.NTildei) != 0 || k.H1i.Cmp(sup.H1i) != 0 || k.H2i.Cmp(sup.H2i) != 0 ||
				k.Alpha.Cmp(sup.Alpha) != 0 || k.Beta.Cmp(sup.Beta) != 0 || k.P.Cmp(sup.P) != 0 || k.Q.Cmp(sup.Q) != 0 {
				return fail("preparams", "party %d saved pre-parameters that differ from the supplied ones", i)
			}
		}
	}
	return out
}

func sumPoints(c curveRef, xs, ys []*big.Int) (x, y *big.Int, ok bool) {
	x, y = xs[0], ys[0]
	for i := 1; i < len(xs); i++ {
		x, y, ok = c.refAdd(x, y, xs[i], ys[i])
		if !ok {
			return nil, nil, false
		}
	}
	return x, y, true
}

func TestC03KeygenEdDSA(t *testing.T) {
	r := ev.New(t, "C03")
	ev.Drive(t, r, genC03(true), runC03)
}

func TestC03KeygenECDSA(t *testing.T) {
	r := ev.New(t, "C03")
	ev.Drive(t, r, genC03(false), runC03)
}

// TestC03GeneratedPreParams: ECDSA parties that pass no pre-parameters (generated by the library in round 1).
func TestC03GeneratedPreParams(t *testing.T) {
	r := ev.New(t, "C03")
	q := ref.Secp.N
	mk := func(n, th int, gen []int, k int) c03Case {
		return c03Case{N: n, T: th, Pattern: "random256", Keys: hxs(detPartyKeys("random256", n, q, fmt.Sprintf("c03-gen/%d/%d", ev.Seed(), k))),
			Sched: SchedSpec{Kind: "fifo"}, PrePerm: []int{0, 1, 2, 3, 4}, GenPre: gen}
	}
	cases := []c03Case{mk(3, 1, []int{int(ev.Seed() % 3)}, 0)}
	if ev.Tier() == "thorough" {
		cases = append(cases, mk(3, 2, []int{0, 1, 2}, 1), mk(2, 1, []int{1}, 2), mk(4, 2, []int{0, 3}, 3))
	}
	ev.Each(t, r, cases, func(c c03Case) ev.Outcome {
		out := runC03(c)
		out.Label += fmt.Sprintf(" generated-preparams=%v", c.GenPre)
		out.Nontrivial = true
		return out
	})
}

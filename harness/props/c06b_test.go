package props

// C06 (b) — protocol level: boundary values, list-shape faults, crafted relations and routing faults
// injected into running protocols; the only oracle is "every call returns, nothing panics, honest
// outputs (if any) are still good".

import (
	"fmt"
	"math/big"
	"sync"
	"testing"

	"github.com/bnb-chain/tss-lib/v2/tss"
	"pgregory.net/rapid"

	"verif/harness/ev"
	"verif/harness/sim"
)

var c06Kinds = []string{"0", "1", "q-1", "q", "q+1", "2q", "kq", "N", "N+1", "N^2", "2^256", "2^2048", "huge", "flip", "p", "q^3+1"}
var c06ListKinds = []string{"empty-list", "keep-one", "append", "dln-repartition"}

func runMatrixC06(t *testing.T, protos []string) {
	r := ev.New(t, "C06")
	if _, ok := ev.Replaying(); ok {
		ev.Each(t, r, []faultCase{}, func(c faultCase) ev.Outcome { return runFault(c, "C06") })
		return
	}
	shard, shards := ev.Shard()
	sample := ev.EnvInt("VERIF_SAMPLE", 0)
	var cases []faultCase
	total := 0
	for _, run := range c05Configs(protos) {
		salt := int(ev.Seed() % 1000)
		cells := enumCells(run, c06Kinds, c06ListKinds, salt, 6)
		cells = append(cells, enumCommitCells(run, salt)...)
		// crafted relation: the deviator's additive contribution cancels everybody else's
		for dev := 0; dev < 3; dev++ {
			switch run.Proto {
			case "ecdsa-signing":
				cells = append(cells, faultCase{Run: run, F: faultSpec{Deviator: dev, MsgType: pES + "SignRound3Message", Field: fieldRef{"theta", -1}, Kind: "sum-zero", Recip: -1}})
				cells = append(cells, faultCase{Run: run, F: faultSpec{Deviator: dev, MsgType: pES + "SignRound9Message", Field: fieldRef{"s", -1}, Kind: "sum-zero", Recip: -1}})
			case "eddsa-signing":
				cells = append(cells, faultCase{Run: run, F: faultSpec{Deviator: dev, MsgType: pDS + "SignRound3Message", Field: fieldRef{"s", -1}, Kind: "sum-zero", Recip: -1}})
			}
		}
		cells = append(cells, enumWholeMessageCells(run, salt)...)
		cells = filterCells(cells)
		total += len(cells)
		cases = append(cases, sampleCells(cells, sample, shard, shards)...)
	}
	r.Note(fmt.Sprintf("matrix_cells_total_%s", t.Name()), total)
	ev.Each(t, r, cases, func(c faultCase) ev.Outcome { return runFault(c, "C06") })
	r.SetExhaustive(sample <= 1)
}

func TestC06MatrixEdDSA(t *testing.T)          { runMatrixC06(t, edProtos) }
func TestC06MatrixECDSASigning(t *testing.T)   { runMatrixC06(t, []string{"ecdsa-signing"}) }
func TestC06MatrixECDSAKeygen(t *testing.T)    { runMatrixC06(t, []string{"ecdsa-keygen"}) }
func TestC06MatrixECDSAResharing(t *testing.T) { runMatrixC06(t, []string{"ecdsa-resharing"}) }

// ------------------------------------------------------------------------------------------------
// routing faults: wrong sender index, wrong flag, wrong recipient / role, re-attribution, replays of
// past-round messages, garbage bytes — injected next to an honest run.

type c06Route struct {
	Run     protoRun
	Choices []int
	Sched   SchedSpec
}

func genC06Route(protos []string) func(t *rapid.T) c06Route {
	return func(t *rapid.T) c06Route {
		c := c06Route{Run: genProtoRun(t, protos)}
		n := len(c.Run.Members) + len(c.Run.NewKeys)
		if n == 0 {
			n = c.Run.Key.N
		}
		c.Sched = genSched(t, n, []string{"fifo", "lifo", "choices"})
		c.Choices = rapid.SliceOfN(rapid.IntRange(0, 1<<20), 20, 200).Draw(t, "inject")
		return c
	}
}

type foreignMsg struct {
	bytes []byte
	bcast bool
}

var foreignMu sync.Mutex
var foreignPool = map[string][]foreignMsg{}

// foreignMessages: wire messages of the two EdDSA protocols other than proto (ECDSA ones are left out: producing
// them costs seconds per process), one per message type.
func foreignMessages(proto string) []foreignMsg {
	foreignMu.Lock()
	defer foreignMu.Unlock()
	var out []foreignMsg
	for _, p := range edProtos {
		if p == proto {
			continue
		}
		if _, ok := foreignPool[p]; !ok {
			x := fixedRun(p, 3, 1, 1).build()
			x.net.Run(sim.FIFO{}, 100000)
			seen := map[string]bool{}
			for _, e := range x.net.Emits {
				if !seen[e.Type] {
					seen[e.Type] = true
					foreignPool[p] = append(foreignPool[p], foreignMsg{e.Bytes, e.Bcast})
				}
			}
		}
		out = append(out, foreignPool[p]...)
	}
	return out
}

func runC06Route(c c06Route) ev.Outcome {
	foreignMessages(c.Run.Proto) // fill the pool first: building those runs sets process-global test dimensions
	x := c.Run.build()
	net := x.net
	kinds := map[string]int{}
	k := 0
	fakeID := func(idx int, key *big.Int) *tss.PartyID {
		id := tss.NewPartyID("fake", "fake", key)
		id.Index = idx
		return id
	}
	prev := net.AfterStep
	net.AfterStep = func(s sim.Step) {
		if prev != nil {
			prev(s)
		}
		if s.D == nil || s.D.Tag != "" || s.Kind != sim.StepDeliver || k >= len(c.Choices) {
			return
		}
		v := c.Choices[k]
		k++
		d := s.D
		h := &sim.Delivery{E: d.E, To: d.To, From: d.From, Bytes: d.Bytes, Bcast: d.Bcast, Tag: "hostile"}
		n := len(net.Nodes)
		switch v % 11 {
		case 10: // a well-formed message of ANOTHER protocol (all message types are registered process-wide)
			fm := foreignMessages(c.Run.Proto)
			if len(fm) == 0 {
				return
			}
			f := fm[(v/11)%len(fm)]
			h.Bytes, h.Bcast = f.bytes, f.bcast
			kinds["foreign-protocol"]++
		case 9: // any small sender index (inside one committee's range, outside the other's)
			h.From = fakeID((v/10)%(n+2), d.From.KeyInt())
			kinds["sender-index-any"]++
		case 0: // sender index beyond every committee
			h.From = fakeID(n+v%7, d.From.KeyInt())
			kinds["sender-index-too-big"]++
		case 1: // sender index huge
			h.From = fakeID(1<<30, d.From.KeyInt())
			kinds["sender-index-huge"]++
		case 2: // wrong flag
			h.Bcast = !d.Bcast
			kinds["flag-flipped"]++
		case 3: // delivered to somebody it was not meant for (other committee / role included)
			h.To = (d.To + 1 + v%(n-1)) % n
			kinds["wrong-recipient"]++
		case 4: // re-attributed to another participant
			h.From = net.Nodes[(d.E.From+1+v%(n-1))%n].ID
			kinds["re-attributed"]++
		case 5: // replay of an old message (past round) to the same recipient
			old := net.Done[v%len(net.Done)]
			h = &sim.Delivery{E: old.E, To: d.To, From: old.From, Bytes: old.Bytes, Bcast: old.Bcast, Tag: "hostile"}
			kinds["replay-old"]++
		case 6: // truncated bytes
			if len(d.Bytes) > 2 {
				h.Bytes = d.Bytes[:len(d.Bytes)/2]
			}
			kinds["truncated"]++
		case 7: // bytes with one bit flipped
			b := append([]byte{}, d.Bytes...)
			if len(b) > 0 {
				b[v%len(b)] ^= 1 << uint(v%8)
			}
			h.Bytes = b
			kinds["bitflip"]++
		case 8: // empty / tiny garbage
			h.Bytes = []byte{byte(v), byte(v >> 8)}[:v%3]
			kinds["garbage"]++
		}
		net.Inject(h)
	}
	c.Sched.apply(net)
	net.Run(c.Sched.Make(), 200000)
	out := ev.Outcome{Label: fmt.Sprintf("routing-faults %s sched=%s", c.Run, c.Sched.Class()), Nontrivial: k > 0}
	out.Sample = map[string]interface{}{"run": c.Run.String(), "injected": kinds}
	// whatever came out of the run must still be good (nobody may output something invalid)
	dev := -1
	if p := judgeHonestOutputs(x, dev); p != nil {
		out.Err, out.Sig = fmt.Errorf("%s: %s", c.Run, p.msg), "routing-fault:"+p.sig
	}
	return out
}

// judgeHonestOutputs: every emitted output is valid (no deviator: everybody is judged).
func judgeHonestOutputs(x *runCtx, dev int) *runProblem {
	return judgeHonest(x, dev, false, "C06")
}

func TestC06RoutingEdDSA(t *testing.T) {
	r := ev.New(t, "C06")
	ev.Drive(t, r, genC06Route(edProtos), runC06Route)
}

func TestC06RoutingECDSA(t *testing.T) {
	r := ev.New(t, "C06")
	ev.Drive(t, r, genC06Route([]string{"ecdsa-keygen", "ecdsa-signing", "ecdsa-resharing"}), runC06Route)
}

// TestC06SenderIndexSweep: every message type of every protocol, handed to every (started or not yet
// started) party with every small sender index and both channel kinds. No call may panic.
type c06Sweep struct {
	Proto   string
	OldN    int
	NewN    int
	Started bool
}

func TestC06SenderIndexSweep(t *testing.T) {
	r := ev.New(t, "C06")
	var cases []c06Sweep
	for _, p := range allProtos {
		for _, st := range []bool{true, false} {
			cases = append(cases, c06Sweep{Proto: p, OldN: 2, NewN: 3, Started: st}, c06Sweep{Proto: p, OldN: 3, NewN: 2, Started: st})
		}
	}
	ev.Each(t, r, cases, func(c c06Sweep) ev.Outcome {
		out := ev.Outcome{Label: fmt.Sprintf("sender-index-sweep %s old=%d new=%d started=%v", c.Proto, c.OldN, c.NewN, c.Started), Nontrivial: true}
		run := fixedRun(c.Proto, c.OldN+1, c.OldN-1, c.NewN-2)
		if c.Proto[6:] != "resharing" {
			run = fixedRun(c.Proto, 3, 1, 1)
		}
		ref := run.build()
		ref.net.Run(sim.FIFO{}, 200000)
		types := map[string]*sim.Emit{}
		for _, e := range ref.net.Emits {
			if _, ok := types[e.Type]; !ok {
				types[e.Type] = e
			}
		}
		x := run.build()
		if c.Started {
			for i := range x.net.Nodes {
				x.net.Start(i)
			}
		}
		n := len(x.net.Nodes)
		calls := 0
		for _, e := range types {
			for _, nd := range x.net.Nodes {
				for idx := 0; idx <= n+1; idx++ {
					for _, bc := range []bool{true, false} {
						id := tss.NewPartyID("sweep", "sweep", big.NewInt(int64(1000+idx)))
						id.Index = idx
						nd.P.UpdateFromBytes(e.Bytes, id, bc)
						calls++
					}
				}
			}
		}
		out.Sample = map[string]interface{}{"proto": c.Proto, "message_types": len(types), "calls": calls}
		return out
	})
}

// enumWholeMessageCells: whole-message garbage (every field random) from one deviator, and -- several faulty
// peers at once -- whole-message garbage or another party's message from EVERY peer of one victim.
func enumWholeMessageCells(run protoRun, salt int) []faultCase {
	x := run.build()
	x.net.Run(sim.FIFO{}, 200000)
	var cells []faultCase
	seenDev, seenAll := map[string]bool{}, map[string]bool{}
	for _, e := range x.net.Emits {
		recip := -1
		if !e.Bcast {
			recip = e.To[0]
		}
		if k := fmt.Sprintf("%d/%s", e.From, e.Type); !seenDev[k] {
			seenDev[k] = true
			cells = append(cells, faultCase{Run: run, F: faultSpec{Deviator: e.From, MsgType: e.Type, Field: fieldRef{"*", -1}, Kind: "rand-all-fields", Recip: recip, Salt: salt}})
		}
		// one victim per message type, chosen by the salt among the parties that receive this type
		if seenAll[e.Type] {
			continue
		}
		seenAll[e.Type] = true
		var victims []int
		for _, e2 := range x.net.Emits {
			if e2.Type != e.Type {
				continue
			}
			for _, to := range sim.ResolveDests(x.net, e2.From, e2.Msg) {
				dup := false
				for _, v := range victims {
					dup = dup || v == to
				}
				if !dup {
					victims = append(victims, to)
				}
			}
		}
		if len(victims) == 0 {
			continue
		}
		v := victims[salt%len(victims)]
		for _, k := range []string{"rand-all-fields", "mirror"} {
			cells = append(cells, faultCase{Run: run, F: faultSpec{Deviator: e.From, MsgType: e.Type, Field: fieldRef{"*", -1}, Kind: k, Recip: v, Salt: salt, All: true}})
		}
	}
	return cells
}

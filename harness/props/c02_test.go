package props

// C02 — Threshold EdDSA signing yields one valid standard Ed25519 signature.

import (
	"bytes"
	"crypto/rand"
	"crypto/sha512"
	"fmt"
	"io"
	"math/big"
	"testing"

	"github.com/bnb-chain/tss-lib/v2/common"
	"github.com/bnb-chain/tss-lib/v2/crypto"
	"github.com/bnb-chain/tss-lib/v2/tss"
	"verif/harness/ref"

	eckeygen "github.com/bnb-chain/tss-lib/v2/ecdsa/keygen"
	edkeygen "github.com/bnb-chain/tss-lib/v2/eddsa/keygen"
	"pgregory.net/rapid"

	"verif/harness/ev"
	"verif/harness/sim"
)

type keyChoice struct {
	Src     string // dkg | dealer | fixture
	N, T    int
	Pattern string
	Seed    string
}

func genKeyChoice(t *rapid.T, edd bool) keyChoice {
	k := keyChoice{Src: rapid.SampledFrom([]string{"dkg", "dealer", "dealer", "dealer", "fixture"}).Draw(t, "keysrc")}
	maxN := 5
	if edd {
		maxN = 7
	}
	switch k.Src {
	case "fixture":
		k.N, k.T, k.Pattern = 5, 2, "fixture"
	case "dkg":
		// a small fixed menu, so that a process runs only a few real key generations
		menu := [][2]int{{2, 1}, {3, 1}, {3, 2}, {4, 2}, {4, 3}, {5, 1}, {5, 3}, {5, 4}}
		if edd {
			menu = append(menu, [2]int{6, 2}, [2]int{7, 3})
		}
		m := rapid.SampledFrom(menu).Draw(t, "nt")
		k.N, k.T = m[0], m[1]
		k.Pattern = rapid.SampledFrom([]string{"random256", "near-q", "small", "gt-q"}).Draw(t, "pat")
	default:
		k.N = rapid.IntRange(2, maxN).Draw(t, "n")
		k.T = rapid.IntRange(1, k.N-1).Draw(t, "t")
		k.Pattern = rapid.SampledFrom(keyPatterns).Draw(t, "pat")
		k.Seed = fmt.Sprintf("%d", rapid.IntRange(0, 7).Draw(t, "dseed"))
	}
	return k
}

func (k keyChoice) String() string {
	return fmt.Sprintf("%s n=%d t=%d keys=%s", k.Src, k.N, k.T, k.Pattern)
}

// resolveED returns the key data (by party index), sorted party keys and the secret key if known (dealer).
func (k keyChoice) resolveED() ([]edkeygen.LocalPartySaveData, []*big.Int, *big.Int, error) {
	switch k.Src {
	case "mem":
		d, ks := resolveMemED(k.Seed)
		if d == nil {
			return nil, nil, nil, fmt.Errorf("in-memory key %s not found", k.Seed)
		}
		return d, ks, nil, nil
	case "dealer":
		d := dealKeys(true, k.N, k.T, k.Pattern, k.Seed)
		return d.ED, d.Keys, d.Secret, nil
	default:
		p, err := poolED(k.N, k.T, k.Pattern)
		if err != nil {
			return nil, nil, nil, err
		}
		return p.Data, p.Keys, nil, nil
	}
}

func genSigners(t *rapid.T, n, tt int) []int {
	size := rapid.IntRange(tt+1, n).Draw(t, "nsigners")
	perm := rapid.Permutation(seq(n)).Draw(t, "signerperm")
	return perm[:size]
}

func seq(n int) []int {
	out := make([]int, n)
	for i := range out {
		out[i] = i
	}
	return out
}

type c02Case struct {
	Key         keyChoice
	Signers     []int
	Msg         B
	LenCls      string
	FBL         bool // pass fullBytesLen = len(Msg)
	Sched       SchedSpec
	Steer       string // "", "r-lead0", "s-lead0", "r+s-lead0": force an encoding with a zero top byte
	SteerSd     int
	IDStyle     string // "", "blank", "shared": free-form id strings of the parties
	Poll        bool   `json:",omitempty"` // the application polls WaitingFor() on every party after every step
	OtherGlobal bool   // the process-global curve is left at secp256k1 although the parameters carry edwards25519
	ShortSSID   bool   // dealer keys only: search for a key whose session id has a leading zero byte
}

func genC02(t *rapid.T) c02Case {
	c := c02Case{Key: genKeyChoice(t, true)}
	c.Signers = genSigners(t, c.Key.N, c.Key.T)
	c.LenCls = rapid.SampledFrom([]string{"1", "2", "31", "32", "33", "64", "200", "1500", "rand"}).Draw(t, "lencls")
	var l int
	switch c.LenCls {
	case "rand":
		l = rapid.IntRange(1, 300).Draw(t, "len")
	default:
		fmt.Sscanf(c.LenCls, "%d", &l)
	}
	b := drawBytes(t, "msg", l, l)
	lead := rapid.SampledFrom([]int{0, 0, 1, 2, 5}).Draw(t, "leadzeros")
	for i := 0; i < lead && i < len(b); i++ {
		b[i] = 0
	}
	if lead == 0 && len(b) > 0 && b[0] == 0 {
		b[0] = 1
	}
	if lead > 0 {
		c.LenCls += fmt.Sprintf("+lead0x%d", lead)
	}
	if rapid.IntRange(0, 15).Draw(t, "allzero") == 0 {
		for i := range b {
			b[i] = 0
		}
		c.LenCls += "+allzero"
	}
	c.Msg = bx(b)
	c.FBL = rapid.Bool().Draw(t, "fbl")
	c.Sched = genSched(t, len(c.Signers), schedNoDup)
	c.Steer = rapid.SampledFrom([]string{"", "", "", "r-lead0", "s-lead0", "r+s-lead0"}).Draw(t, "steer")
	c.SteerSd = rapid.IntRange(0, 1<<30).Draw(t, "steerseed")
	c.ShortSSID = c.Key.Src == "dealer" && rapid.IntRange(0, 3).Draw(t, "shortssid") == 0
	c.OtherGlobal = rapid.Bool().Draw(t, "otherGlobal")
	c.IDStyle = rapid.SampledFrom([]string{"", "", "", "blank", "shared"}).Draw(t, "idStyle")
	c.Poll = rapid.Bool().Draw(t, "poll")
	return c
}

// edSigningSSID: see ecSigningSSID.
func edSigningSSID(data []edkeygen.LocalPartySaveData, signers []int) []byte {
	var shareIDs []*big.Int
	for _, i := range signers {
		shareIDs = append(shareIDs, data[i].ShareID)
	}
	ids := sim.MakeIDs("s", shareIDs)
	sub := edkeygen.BuildLocalSaveDataSubset(data[signers[0]], ids)
	p := tss.Edwards().Params()
	list := []*big.Int{p.P, p.N, p.Gx, p.Gy}
	list = append(list, ids.Keys()...)
	flat, _ := crypto.FlattenECPoints(sub.BigXj)
	list = append(list, flat...)
	list = append(list, big.NewInt(1), big.NewInt(0))
	return common.SHA512_256i(list...).Bytes()
}

// planSteerEd chooses the signers' nonces r_i (first draw of each signer's random source) so that the
// encoding of R = sum r_i*G has a zero top byte, and (when the private key is known: dealer keys) appends
// a counter to the message until S = r + H(R,A,M)*a mod L has a zero top byte. Generation-side only.
func planSteerEd(c c02Case, nSigners int, priv *big.Int, pubX, pubY *big.Int, msg []byte, fbl bool) (rs []*big.Int, outMsg []byte) {
	L := ref.Ed.L
	d := newDRBG(fmt.Sprintf("steer-ed/%d", c.SteerSd))
	rnd := func() *big.Int {
		b := make([]byte, 40)
		d.Read(b)
		v := new(big.Int).SetBytes(b)
		v.Mod(v, add(L, -1))
		return v.Add(v, one)
	}
	rtot := rnd()
	curve := tss.Edwards()
	var enc [32]byte
	for i := 0; i < 100000; i++ {
		x, y := curve.ScalarBaseMult(rtot.Bytes())
		enc = ref.Ed.Encode(ref.Point{X: x, Y: y})
		if c.Steer == "s-lead0" || enc[31] == 0 {
			break
		}
		rtot = add(rtot, 1)
	}
	sum := new(big.Int)
	for i := 0; i < nSigners-1; i++ {
		r := rnd()
		rs = append(rs, r)
		sum.Add(sum, r)
	}
	last := new(big.Int).Sub(rtot, sum)
	last.Mod(last, L)
	if last.Sign() == 0 {
		last = big.NewInt(1)
	}
	rs = append(rs, last)
	outMsg = msg
	if priv != nil && c.Steer != "r-lead0" {
		A := ref.Ed.Encode(ref.Point{X: pubX, Y: pubY})
		for ctr := 0; ctr < 4096; ctr++ {
			m := append(append([]byte{}, msg...), byte(ctr>>8), byte(ctr))
			echo := m
			if !fbl { // the library hashes the stripped message
				echo = new(big.Int).SetBytes(m).Bytes()
			}
			h := sha512.New()
			h.Write(enc[:])
			h.Write(A[:])
			h.Write(echo)
			k := leInt(h.Sum(nil))
			k.Mod(k, L)
			S := new(big.Int).Mul(k, priv)
			S.Add(S, rtot)
			S.Mod(S, L)
			if S.BitLen() <= 248 {
				return rs, m
			}
		}
	}
	return rs, outMsg
}

func runC02(c c02Case) (out ev.Outcome) {
	out = ev.Outcome{Label: fmt.Sprintf("eddsa-sign %s |S|=%d len=%s fbl=%v sched=%s", c.Key, len(c.Signers), c.LenCls, c.FBL, c.Sched.Class())}
	msg := c.Msg.Bytes()
	out.Nontrivial = !(c.Key.Src == "fixture" && len(c.Signers) == 3 && c.LenCls == "1" && !c.FBL && c.Sched.Kind == "fifo")
	fail := func(sig, f string, a ...interface{}) ev.Outcome {
		out.Err, out.Sig = fmt.Errorf(f, a...), sig
		return out
	}
	setGlobalCurve(true, c.OtherGlobal)
	sim.IDStyle = c.IDStyle
	if c.IDStyle != "" {
		defer func() { out.Label += " id-strings=" + c.IDStyle }()
	}
	if c.OtherGlobal {
		out.Label += " global-curve=other"
	}
	if c.ShortSSID && c.Key.Src == "dealer" {
		var short bool
		c.Key.Seed, short = shortSSIDSeed(c.Key, func(sd string) []byte {
			return edSigningSSID(dealKeys(true, c.Key.N, c.Key.T, c.Key.Pattern, sd).ED, c.Signers)
		})
		if short {
			out.Label += " ssid<32B"
		}
	}
	data, _, secret, err := c.Key.resolveED()
	if err != nil {
		panic("harness: " + err.Error())
	}
	var keys []edkeygen.LocalPartySaveData
	for _, i := range c.Signers {
		keys = append(keys, data[i])
	}
	var readers []io.Reader
	if c.Steer != "" {
		pub0 := data[0].EDDSAPub
		var rs []*big.Int
		rs, msg = planSteerEd(c, len(keys), secret, pub0.X(), pub0.Y(), msg, c.FBL)
		for _, r := range rs {
			readers = append(readers, &prefixReader{prefix: r.FillBytes(make([]byte, 32)), rest: rand.Reader})
		}
	}
	m := new(big.Int).SetBytes(msg)
	fbl := -1
	want := m.Bytes() // leading zeros stripped when no full length is requested
	if c.FBL {
		fbl = len(msg)
		want = msg
	}
	cfg := sim.SignCfg{EdDSA: true, EDKeys: keys, T: c.Key.T, Msg: m, FullBytesLen: fbl}
	if readers != nil {
		cfg.Rand = func(i int) io.Reader { return readers[i] }
	}
	net, _, _ := sim.NewSigning(cfg)
	c.Sched.apply(net)
	if c.Poll {
		pollWaitingFor(net)
		defer func() { out.Label += " polled" }()
	}
	net.Run(c.Sched.Make(), 20000)
	if e := honestRunProblems(net); e != nil {
		return fail(e.sig, "%s", e.msg)
	}
	pub := data[0].EDDSAPub
	var first []byte
	for _, nd := range net.Nodes {
		s := nd.Sigs[0]
		if e := checkEdDSASig(s, pub.X(), pub.Y(), want); e != nil {
			return fail("signature", "signer %d: %v", nd.Idx, e)
		}
		if first == nil {
			first = s.Signature
		} else if !bytes.Equal(first, s.Signature) {
			return fail("differ", "signers output different signatures")
		}
	}
	// observed encoding classes (measured on the output)
	if first[31] == 0 {
		out.Label += " out:R-top0"
	}
	if first[63] == 0 {
		out.Label += " out:S-top0"
	}
	if first[0] == 0 || first[32] == 0 {
		out.Label += " out:low0"
	}
	return out
}

var (
	resolveMemED func(id string) ([]edkeygen.LocalPartySaveData, []*big.Int)
	resolveMemEC func(id string) ([]eckeygen.LocalPartySaveData, []*big.Int)
)

type runProblem struct{ sig, msg string }

// honestRunProblems: an honest run must end quiescent, error-free, every party finished exactly once.
func honestRunProblems(net *sim.Net) *runProblem {
	if len(net.EmitErrs) > 0 {
		return &runProblem{"routing", "routing problem: " + net.EmitErrs[0]}
	}
	for _, nd := range net.Nodes {
		if nd.Errored() {
			return &runProblem{"error", fmt.Sprintf("party %d returned an error in an honest run: %v", nd.Idx, nd.Errs[0])}
		}
	}
	if !net.Quiescent() {
		return &runProblem{"not-quiescent", "run did not reach quiescence in the step budget"}
	}
	for _, nd := range net.Nodes {
		if nd.Results() == 0 {
			return &runProblem{"deadlock", fmt.Sprintf("all sent messages were delivered but party %d did not finish: %s", nd.Idx, describeNet(net))}
		}
		if nd.Results() != 1 {
			return &runProblem{"multi-result", fmt.Sprintf("party %d emitted %d results", nd.Idx, nd.Results())}
		}
	}
	return nil
}

func TestC02EdDSASign(t *testing.T) {
	r := ev.New(t, "C02")
	ev.Drive(t, r, genC02, runC02)
}

package props

// C18 — HD child key derivation matches BIP32 and signatures verify under the child key.

import (
	"bytes"
	"crypto/ecdsa"
	"crypto/hmac"
	"crypto/sha512"
	"fmt"
	"math/big"
	"testing"

	"github.com/bnb-chain/tss-lib/v2/crypto"
	"github.com/bnb-chain/tss-lib/v2/crypto/ckd"
	eckeygen "github.com/bnb-chain/tss-lib/v2/ecdsa/keygen"
	ecsigning "github.com/bnb-chain/tss-lib/v2/ecdsa/signing"
	"github.com/bnb-chain/tss-lib/v2/tss"
	"pgregory.net/rapid"

	"verif/harness/ev"
	"verif/harness/ref"
	"verif/harness/sim"
)

var xpubVersion = []byte{0x04, 0x88, 0xB2, 0x1E}

type c18Derive struct {
	ParentK H      // parent key = ParentK*G
	KeyC    string // random | short-x | small
	Chain   B
	ChainC  string
	Path    []uint32
	Depth   uint8
	Bad     string // "", "hardened", "hardened-max", "depth255", "off-curve"
	ShortAt int    // search an index at this level so that the child there has a short x (-1: no)
}

func genIndex(t *rapid.T) uint32 {
	switch rapid.SampledFrom([]string{"0", "1", "max", "rand", "rand"}).Draw(t, "idxclass") {
	case "0":
		return 0
	case "1":
		return 1
	case "max":
		return 1<<31 - 1
	}
	return uint32(rapid.IntRange(0, 1<<31-1).Draw(t, "idx"))
}

func genC18Derive(t *rapid.T) c18Derive {
	c := c18Derive{KeyC: rapid.SampledFrom([]string{"random", "random", "short-x", "small"}).Draw(t, "keyclass")}
	k := add(drawBelow(t, "k", add(ref.Secp.N, -1)), 1)
	if c.KeyC == "small" {
		k = big.NewInt(int64(rapid.IntRange(1, 50).Draw(t, "smallk")))
	}
	if c.KeyC == "short-x" {
		for i := 0; i < 5000; i++ {
			x, _ := tss.S256().ScalarBaseMult(k.Bytes())
			if x.BitLen() <= 248 {
				break
			}
			k = add(k, 1)
		}
	}
	c.ParentK = hx(k)
	c.ChainC = rapid.SampledFrom([]string{"zero", "ff", "rand", "rand"}).Draw(t, "chainclass")
	cc := make([]byte, 32)
	switch c.ChainC {
	case "ff":
		for i := range cc {
			cc[i] = 0xff
		}
	case "rand":
		cc = drawBytes(t, "chain", 32, 32)
	}
	c.Chain = bx(cc)
	n := rapid.IntRange(0, 5).Draw(t, "pathlen")
	for i := 0; i < n; i++ {
		c.Path = append(c.Path, genIndex(t))
	}
	c.Depth = uint8(rapid.SampledFrom([]int{0, 0, 0, 1, 3, 200, 250}).Draw(t, "depth"))
	c.Bad = rapid.SampledFrom([]string{"", "", "", "", "", "hardened", "hardened-mid", "hardened-max", "depth255", "depth-overflow", "off-curve", "identity-parent", "y-minus-p", "minus-y", "x-plus-p"}).Draw(t, "bad")
	c.ShortAt = -1
	if n > 0 && rapid.IntRange(0, 3).Draw(t, "shortchild") == 0 {
		c.ShortAt = rapid.IntRange(0, n-1).Draw(t, "shortat")
	}
	return c
}

func sameXKey(lib *ckd.ExtendedKey, r ref.XPub) error {
	if lib.PublicKey.X.Cmp(r.Key.X) != 0 || lib.PublicKey.Y.Cmp(r.Key.Y) != 0 {
		return fmt.Errorf("child public key differs from BIP32")
	}
	if !bytes.Equal(lib.ChainCode, r.ChainCode[:]) {
		return fmt.Errorf("chain code differs from BIP32")
	}
	if lib.Depth != r.Depth {
		return fmt.Errorf("depth %d, BIP32 says %d", lib.Depth, r.Depth)
	}
	if lib.ChildIndex != r.ChildIdx {
		return fmt.Errorf("child index %d, BIP32 says %d", lib.ChildIndex, r.ChildIdx)
	}
	if !bytes.Equal(lib.ParentFP, r.ParentFP[:]) {
		return fmt.Errorf("parent fingerprint differs from BIP32")
	}
	if lib.String() != r.String() {
		return fmt.Errorf("serialised extended key differs from BIP32: %s vs %s", lib.String(), r.String())
	}
	return nil
}

func runC18Derive(c c18Derive) ev.Outcome {
	out := ev.Outcome{Label: fmt.Sprintf("derive key=%s chain=%s pathlen=%d depth0=%d bad=%s shortchild=%v", c.KeyC, c.ChainC, len(c.Path), c.Depth, c.Bad, c.ShortAt >= 0)}
	out.Nontrivial = len(c.Path) > 1 || c.Bad != "" || c.KeyC != "random" || c.ShortAt >= 0
	fail := func(sig, f string, a ...interface{}) ev.Outcome {
		out.Err, out.Sig = fmt.Errorf(f, a...), sig
		return out
	}
	curve := tss.S256()
	px, py := curve.ScalarBaseMult(c.ParentK.Big().Bytes())
	path := append([]uint32{}, c.Path...)
	depth := c.Depth
	chain := c.Chain.Bytes()
	rp := ref.XPub{Depth: depth, Key: ref.Point{X: px, Y: py}}
	copy(rp.Version[:], xpubVersion)
	copy(rp.ChainCode[:], chain)
	// steer one level so that the child there has an x coordinate with a leading zero byte
	if c.ShortAt >= 0 && c.ShortAt < len(path) {
		cur := rp
		okPrefix := true
		for i := 0; i < c.ShortAt; i++ {
			nx, _, err := ref.CKDPub(cur, path[i])
			if err != nil {
				okPrefix = false
				break
			}
			cur = nx
		}
		if okPrefix {
			// fast search with the curve back-end (generation only; the oracle below is the reference)
			ser := ref.SerCompressed(cur.Key)
			for idx := uint32(0); idx < 4000; idx++ {
				data := append(append([]byte{}, ser...), byte(idx>>24), byte(idx>>16), byte(idx>>8), byte(idx))
				m := hmac.New(sha512.New, cur.ChainCode[:])
				m.Write(data)
				I := m.Sum(nil)
				ix, iy := curve.ScalarBaseMult(I[:32])
				cx, _ := curve.Add(ix, iy, cur.Key.X, cur.Key.Y)
				if cx.BitLen() <= 248 {
					path[c.ShortAt] = idx
					out.Label += " (steered)"
					break
				}
			}
		}
	}
	switch c.Bad {
	case "hardened":
		path = append(path, 1<<31)
	case "hardened-max":
		path = append(path, 1<<32-1)
	case "depth255":
		depth = 255
		rp.Depth = 255
		if len(path) == 0 {
			path = []uint32{0}
		}
	case "hardened-mid": // a hardened index in the middle of the path
		path = append(append(append([]uint32{}, path...), 1<<31+7), 0, 1)
	case "depth-overflow": // the path runs past depth 255
		depth = 254
		rp.Depth = 254
		path = []uint32{0, 1, 2}
	case "off-curve":
		py = add(py, 1)
		if len(path) == 0 {
			path = []uint32{0}
		}
	case "identity-parent", "y-minus-p", "minus-y", "x-plus-p": // parents that are not valid points in canonical form
		switch c.Bad {
		case "identity-parent":
			px, py = big.NewInt(0), big.NewInt(0)
		case "y-minus-p":
			py = new(big.Int).Sub(py, ref.Secp.P)
		case "minus-y":
			py = new(big.Int).Neg(py)
		case "x-plus-p":
			px = new(big.Int).Add(px, ref.Secp.P)
		}
		if len(path) == 0 {
			path = []uint32{0}
		}
	}
	parent := &ckd.ExtendedKey{PublicKey: ecdsa.PublicKey{Curve: curve, X: px, Y: py}, Depth: depth, ChildIndex: 0, ChainCode: chain, ParentFP: []byte{0, 0, 0, 0}, Version: xpubVersion}
	var il *big.Int
	var child *ckd.ExtendedKey
	var err error
	if p := mustNoPanic(func() { il, child, err = ckd.DeriveChildKeyFromHierarchy(path, parent, ref.Secp.N, curve) }); p != nil {
		return fail("panic", "DeriveChildKeyFromHierarchy panicked: %v", p)
	}
	if c.Bad != "" {
		if err == nil {
			return fail("refusal-missing:"+c.Bad, "derivation accepted %s (path %v depth %d)", c.Bad, path, depth)
		}
		// the single-step entry point refuses the same first step when the parent / first index is the bad part
		if c.Bad == "off-curve" || c.Bad == "identity-parent" || c.Bad == "y-minus-p" || c.Bad == "minus-y" || c.Bad == "x-plus-p" || c.Bad == "depth255" {
			var e1 error
			if p := mustNoPanic(func() { _, _, e1 = ckd.DeriveChildKey(path[0], parent, curve) }); p != nil {
				return fail("panic", "DeriveChildKey panicked on %s: %v", c.Bad, p)
			}
			if e1 == nil {
				return fail("refusal-missing:"+c.Bad, "DeriveChildKey accepted %s", c.Bad)
			}
		}
		return out
	}
	// reference chain
	cur := rp
	offset := new(big.Int)
	refErr := error(nil)
	for _, idx := range path {
		nx, ilr, e := ref.CKDPub(cur, idx)
		if e != nil {
			refErr = e
			break
		}
		offset.Add(offset, ilr)
		offset.Mod(offset, ref.Secp.N)
		cur = nx
	}
	if refErr != nil { // IL >= n or point at infinity: BIP32 says the index is invalid
		if err == nil {
			return fail("refusal-missing:invalid-child", "library derived a key where BIP32 declares the index invalid (%v)", refErr)
		}
		return out
	}
	if err != nil {
		return fail("derive-error", "derivation failed on a valid path %v: %v", path, err)
	}
	if len(path) == 0 {
		if il.Sign() != 0 || child != parent {
			return fail("empty-path", "empty path must return offset 0 and the parent key")
		}
		return out
	}
	if e := sameXKey(child, cur); e != nil {
		return fail("bip32-mismatch", "path %v: %v", path, e)
	}
	if il.Cmp(offset) != 0 {
		return fail("offset", "returned offset is not the sum of the I_L over the path (mod q)")
	}
	// child = parent + offset*G
	if offset.Sign() != 0 {
		s := ref.Secp.Add(ref.Point{X: px, Y: py}, ref.Secp.BaseMul(il))
		if s.Inf || s.X.Cmp(child.PublicKey.X) != 0 || s.Y.Cmp(child.PublicKey.Y) != 0 {
			return fail("offset-relation", "child != parent + offset*G")
		}
	}
	// single-step API agrees with the hierarchy API on the first step
	il1, c1, e1 := ckd.DeriveChildKey(path[0], parent, curve)
	r1, ilr1, _ := ref.CKDPub(rp, path[0])
	if e1 != nil || il1.Cmp(ilr1) != 0 || sameXKey(c1, r1) != nil {
		return fail("single-step", "DeriveChildKey disagrees with BIP32 on the first step: %v", e1)
	}
	// String / parse round trip
	back, e := ckd.NewExtendedKeyFromString(child.String(), curve)
	if e != nil {
		return fail("parse", "NewExtendedKeyFromString(String()) failed: %v", e)
	}
	if back.String() != child.String() || back.PublicKey.X.Cmp(child.PublicKey.X) != 0 || back.PublicKey.Y.Cmp(child.PublicKey.Y) != 0 ||
		back.Depth != child.Depth || back.ChildIndex != child.ChildIndex || !bytes.Equal(back.ChainCode, child.ChainCode) || !bytes.Equal(back.ParentFP, child.ParentFP) {
		return fail("roundtrip", "extended key does not round-trip through its string form")
	}
	if child.PublicKey.X.BitLen() <= 248 || px.BitLen() <= 248 {
		out.Label += " short-x-on-path"
	}
	return out
}

func TestC18Derive(t *testing.T) {
	r := ev.New(t, "C18")
	ev.Drive(t, r, genC18Derive, runC18Derive)
}

// TestC18Vectors: published BIP32 public derivations (test vector 1 and 2 chains that are non-hardened).
func TestC18Vectors(t *testing.T) {
	r := ev.New(t, "C18")
	if _, ok := ev.Replaying(); ok {
		t.Skip()
	}
	vectors := [][3]string{ // parent xpub, index, child xpub
		{"xpub661MyMwAqRbcFW31YEwpkMuc5THy2PSt5bDMsktWQcFF8syAmRUapSCGu8ED9W6oDMSgv6Zz8idoc4a6mr8BDzTJY47LJhkJ8UB7WEGuduB", "0",
			"xpub69H7F5d8KSRgmmdJg2KhpAK8SR3DjMwAdkxj3ZuxV27CprR9LgpeyGmXUbC6wb7ERfvrnKZjXoUmmDznezpbZb7ap6r1D3tgFxHmwMkQTPH"},
		{"xpub68Gmy5EdvgibQVfPdqkBBCHxA5htiqg55crXYuXoQRKfDBFA1WEjWgP6LHhwBZeNK1VTsfTFUHCdrfp1bgwQ9xv5ski8PX9rL2dZXvgGDnw", "1",
			"xpub6ASuArnXKPbfEwhqN6e3mwBcDTgzisQN1wXN9BJcM47sSikHjJf3UFHKkNAWbWMiGj7Wf5uMash7SyYq527Hqck2AxYysAA7xmALppuCkwQ"},
		{"xpub6D4BDPcP2GT577Vvch3R8wDkScZWzQzMMUm3PWbmWvVJrZwQY4VUNgqFJPMM3No2dFDFGTsxxpG5uJh7n7epu4trkrX7x7DogT5Uv6fcLW5", "2",
			"xpub6FHa3pjLCk84BayeJxFW2SP4XRrFd1JYnxeLeU8EqN3vDfZmbqBqaGJAyiLjTAwm6ZLRQUMv1ZACTj37sR62cfN7fe5JnJ7dh8zL4fiyLHV"},
		{"xpub6FHa3pjLCk84BayeJxFW2SP4XRrFd1JYnxeLeU8EqN3vDfZmbqBqaGJAyiLjTAwm6ZLRQUMv1ZACTj37sR62cfN7fe5JnJ7dh8zL4fiyLHV", "1000000000",
			"xpub6H1LXWLaKsWFhvm6RVpEL9P4KfRZSW7abD2ttkWP3SSQvnyA8FSVqNTEcYFgJS2UaFcxupHiYkro49S8yGasTvXEYBVPamhGW6cFJodrTHy"},
	}
	curve := tss.S256()
	for _, v := range vectors {
		var idx uint32
		fmt.Sscanf(v[1], "%d", &idx)
		parent, err := ckd.NewExtendedKeyFromString(v[0], curve)
		if err != nil {
			// a vector string the library cannot parse: compare with the reference before judging
			r.Count("vector unparsable (ignored: transcription unverifiable)", false, v[0])
			continue
		}
		if parent.String() != v[0] {
			p := r.Violation(t.Name(), "vector-roundtrip", "published xpub does not round-trip: "+v[0], v)
			t.Fatalf("VERIF-VIOLATION replay=%s", p)
		}
		_, child, err := ckd.DeriveChildKey(idx, parent, curve)
		if err != nil || child.String() != v[2] {
			// only a violation if the independent reference reproduces the published child (else the vector text is suspect)
			rp := ref.XPub{Depth: parent.Depth, ChildIdx: parent.ChildIndex, Key: ref.Point{X: parent.PublicKey.X, Y: parent.PublicKey.Y}}
			copy(rp.Version[:], parent.Version)
			copy(rp.ChainCode[:], parent.ChainCode)
			copy(rp.ParentFP[:], parent.ParentFP)
			rc, _, rerr := ref.CKDPub(rp, idx)
			if rerr == nil && rc.String() == v[2] {
				p := r.Violation(t.Name(), "vector-mismatch", fmt.Sprintf("published BIP32 vector %s/%d not reproduced: %v", v[0][:20], idx, err), v)
				t.Fatalf("VERIF-VIOLATION replay=%s", p)
			}
			r.Count("vector not reproduced by the reference either (ignored)", false, v[0])
			continue
		}
		r.Count("published BIP32 vector "+v[1], true, v)
	}
}

// ------------------------------------------------------------------------------------------------
// histories: derive -> adjust a copy -> sign with the offset, repeatedly on the same stored key

type c18Hist struct {
	Key      keyChoice
	Chain    B
	Sessions []c18Session
}

type c18Session struct {
	Path    []uint32
	Signers []int
	Digest  H
}

func genC18Hist(t *rapid.T) c18Hist {
	c := c18Hist{Key: genKeyChoice(t, false)}
	c.Chain = bx(drawBytes(t, "chain", 32, 32))
	n := rapid.IntRange(1, 3).Draw(t, "sessions")
	for i := 0; i < n; i++ {
		s := c18Session{Signers: genSigners(t, c.Key.N, c.Key.T), Digest: hx(drawBelow(t, "digest", ref.Secp.N))}
		pl := rapid.IntRange(1, 4).Draw(t, "pathlen")
		for k := 0; k < pl; k++ {
			s.Path = append(s.Path, genIndex(t))
		}
		c.Sessions = append(c.Sessions, s)
	}
	return c
}

// adjustedCopy: what a caller does before an HD signing session: a copy of the stored key data whose
// public key and public share points are shifted by delta*G (the stored data itself must stay as it is).
func adjustedCopies(stored []eckeygen.LocalPartySaveData, delta *big.Int, child *ecdsa.PublicKey) ([]eckeygen.LocalPartySaveData, error) {
	cp := make([]eckeygen.LocalPartySaveData, len(stored))
	for i := range stored {
		cp[i] = stored[i]
		cp[i].BigXj = append([]*crypto.ECPoint{}, stored[i].BigXj...)
	}
	err := ecsigning.UpdatePublicKeyAndAdjustBigXj(delta, cp, child, tss.S256())
	return cp, err
}

func runC18Hist(c c18Hist) ev.Outcome {
	out := ev.Outcome{Label: fmt.Sprintf("hd-sign %s sessions=%d", c.Key, len(c.Sessions)), Nontrivial: true}
	fail := func(sig, f string, a ...interface{}) ev.Outcome {
		out.Err, out.Sig = fmt.Errorf(f, a...), sig
		return out
	}
	data, _, err := c.Key.resolveEC()
	if err != nil {
		panic("harness: " + err.Error())
	}
	stored := make([]eckeygen.LocalPartySaveData, len(data))
	snaps := make([][]byte, len(data))
	for i := range data {
		stored[i] = deepCopyEC(data[i])
		snaps[i] = jsonOf(stored[i])
	}
	parentPub := stored[0].ECDSAPub
	for si, s := range c.Sessions {
		parent := &ckd.ExtendedKey{PublicKey: ecdsa.PublicKey{Curve: tss.S256(), X: parentPub.X(), Y: parentPub.Y()}, ChainCode: c.Chain.Bytes(), ParentFP: []byte{0, 0, 0, 0}, Version: xpubVersion}
		delta, child, err := ckd.DeriveChildKeyFromHierarchy(s.Path, parent, ref.Secp.N, tss.S256())
		if err != nil {
			out.Label += " (invalid index: skipped)"
			continue
		}
		cps, err := adjustedCopies(stored, delta, &child.PublicKey)
		if err != nil {
			return fail("adjust", "UpdatePublicKeyAndAdjustBigXj failed: %v", err)
		}
		var keys []eckeygen.LocalPartySaveData
		for _, i := range s.Signers {
			keys = append(keys, cps[i])
		}
		digest := s.Digest.Big()
		net, _, _ := sim.NewSigning(sim.SignCfg{ECKeys: keys, T: c.Key.T, Msg: digest, FullBytesLen: -1, KDD: delta})
		net.Run(sim.FIFO{}, 100000)
		if e := honestRunProblems(net); e != nil {
			return fail("session:"+e.sig, "session %d (path %v): %s", si, s.Path, e.msg)
		}
		for _, nd := range net.Nodes {
			sg := nd.Sigs[0]
			if e := checkECDSASig(sg, child.PublicKey.X, child.PublicKey.Y, digest, -1); e != nil {
				return fail("child-signature", "session %d: signature does not verify under the derived child key: %v", si, e)
			}
			if ref.Secp.ECDSAVerify(ref.Point{X: parentPub.X(), Y: parentPub.Y()}, digest, new(big.Int).SetBytes(sg.R), new(big.Int).SetBytes(sg.S)) {
				return fail("parent-signature", "session %d: the signature verifies under the PARENT key", si)
			}
		}
		for i := range stored {
			if !bytes.Equal(jsonOf(stored[i]), snaps[i]) {
				return fail("stored-modified", "stored key data of party %d changed during HD signing session %d", i, si)
			}
		}
	}
	return out
}

func TestC18SignHistories(t *testing.T) {
	r := ev.New(t, "C18")
	ev.Drive(t, r, genC18Hist, runC18Hist)
}

// ------------------------------------------------------------------------------------------------
// key-object histories: one root key object (built literally or parsed from its string form) and the
// objects derived from it are used again and again -- derived from, serialised, compared -- in a drawn
// order; after every operation every object ever obtained must still equal its BIP32 reference.

type c18Op struct {
	Op  string // derive | string | parse-back
	K   int    // which held key (modulo their number)
	Idx uint32
}

type c18Objects struct {
	RootK  H
	Chain  B
	Depth  uint8
	Parsed bool // the root object comes from NewExtendedKeyFromString
	Ops    []c18Op
}

func genC18Objects(t *rapid.T) c18Objects {
	c := c18Objects{RootK: hx(add(drawBelow(t, "k", add(ref.Secp.N, -1)), 1)), Chain: bx(drawBytes(t, "chain", 32, 32)),
		Depth: uint8(rapid.SampledFrom([]int{0, 0, 1, 5, 250}).Draw(t, "depth")), Parsed: rapid.Bool().Draw(t, "parsed")}
	n := rapid.IntRange(2, 14).Draw(t, "nops")
	for i := 0; i < n; i++ {
		c.Ops = append(c.Ops, c18Op{Op: rapid.SampledFrom([]string{"derive", "derive", "string", "parse-back"}).Draw(t, "op"),
			K: rapid.IntRange(0, 20).Draw(t, "k"), Idx: genIndex(t)})
	}
	return c
}

func runC18Objects(c c18Objects) ev.Outcome {
	out := ev.Outcome{}
	fail := func(sig, f string, a ...interface{}) ev.Outcome {
		out.Err, out.Sig = fmt.Errorf(f, a...), sig
		return out
	}
	curve := tss.S256()
	px, py := curve.ScalarBaseMult(c.RootK.Big().Bytes())
	rp := ref.XPub{Depth: c.Depth, Key: ref.Point{X: px, Y: py}}
	copy(rp.Version[:], xpubVersion)
	copy(rp.ChainCode[:], c.Chain.Bytes())
	var root *ckd.ExtendedKey
	if c.Parsed {
		var err error
		root, err = ckd.NewExtendedKeyFromString(rp.String(), curve)
		if err != nil {
			return fail("parse", "the reference serialisation of the root key is refused: %v", err)
		}
	} else {
		root = &ckd.ExtendedKey{PublicKey: ecdsa.PublicKey{Curve: curve, X: px, Y: py}, Depth: c.Depth, ChainCode: c.Chain.Bytes(), ParentFP: []byte{0, 0, 0, 0}, Version: append([]byte{}, xpubVersion...)}
	}
	type held struct {
		lib *ckd.ExtendedKey
		ref ref.XPub
		how string
	}
	keys := []held{{root, rp, "root"}}
	// fieldsEqual compares without calling any method that might touch shared buffers
	fieldsEqual := func(h held) error {
		l, r := h.lib, h.ref
		switch {
		case l.PublicKey.X.Cmp(r.Key.X) != 0 || l.PublicKey.Y.Cmp(r.Key.Y) != 0:
			return fmt.Errorf("public key changed")
		case !bytes.Equal(l.ChainCode, r.ChainCode[:]):
			return fmt.Errorf("chain code is %x, BIP32 says %x", l.ChainCode, r.ChainCode)
		case !bytes.Equal(l.ParentFP, r.ParentFP[:]):
			return fmt.Errorf("parent fingerprint is %x, BIP32 says %x", l.ParentFP, r.ParentFP)
		case !bytes.Equal(l.Version, r.Version[:]):
			return fmt.Errorf("version bytes are %x", l.Version)
		case l.Depth != r.Depth || l.ChildIndex != r.ChildIdx:
			return fmt.Errorf("depth/index changed")
		}
		return nil
	}
	derives, strings_, reuse := 0, 0, 0
	used := map[int]int{}
	var hist []string
	for step, op := range c.Ops {
		k := op.K % len(keys)
		h := keys[k]
		switch op.Op {
		case "derive":
			if h.ref.Depth == 255 {
				continue
			}
			nx, _, rerr := ref.CKDPub(h.ref, op.Idx)
			_, child, err := ckd.DeriveChildKey(op.Idx, h.lib, curve)
			if rerr != nil {
				if err == nil {
					return fail("refusal-missing:invalid-child", "library derived a key where BIP32 declares the index invalid")
				}
				continue
			}
			if err != nil {
				return fail("derive-error", "step %d: DeriveChildKey(%d) of %s failed: %v (history %v)", step, op.Idx, h.how, err, hist)
			}
			keys = append(keys, held{child, nx, fmt.Sprintf("%s/%d", h.how, op.Idx)})
			derives++
			hist = append(hist, fmt.Sprintf("derive(%s,%d)", h.how, op.Idx))
		case "string":
			if s := h.lib.String(); s != h.ref.String() {
				return fail("objects-string", "step %d: String() of %s is %s, BIP32 says %s (history %v)", step, h.how, s, h.ref.String(), hist)
			}
			strings_++
			hist = append(hist, fmt.Sprintf("string(%s)", h.how))
		case "parse-back":
			back, err := ckd.NewExtendedKeyFromString(h.ref.String(), curve)
			if err != nil {
				return fail("parse", "step %d: reference serialisation of %s refused: %v", step, h.how, err)
			}
			keys = append(keys, held{back, h.ref, h.how + "(parsed)"})
			hist = append(hist, fmt.Sprintf("parse(%s)", h.how))
		}
		used[k]++
		if used[k] == 2 {
			reuse++
		}
		for _, hk := range keys {
			if err := fieldsEqual(hk); err != nil {
				return fail("objects-corrupted", "after step %d (%s on %s) the key object %s no longer equals its BIP32 reference: %v (history %v)", step, op.Op, h.how, hk.how, err, hist)
			}
		}
	}
	for _, hk := range keys { // final: serialisations
		if s := hk.lib.String(); s != hk.ref.String() {
			return fail("objects-string", "at the end String() of %s is %s, BIP32 says %s (history %v)", hk.how, s, hk.ref.String(), hist)
		}
	}
	out.Label = fmt.Sprintf("key-objects root=%s derives=%d strings=%d reused-objects=%v", map[bool]string{true: "parsed", false: "literal"}[c.Parsed], min(derives, 3), min(strings_, 3), reuse > 0)
	out.Nontrivial = reuse > 0 && derives > 0 && strings_ > 0
	return out
}

func TestC18KeyObjects(t *testing.T) {
	r := ev.New(t, "C18")
	ev.Drive(t, r, genC18Objects, runC18Objects)
}

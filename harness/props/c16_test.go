package props

// C16 — Commitments bind; hash inputs are framed unambiguously.

import (
	"bytes"
	"fmt"
	"math/big"
	"reflect"
	"strings"
	"testing"

	"github.com/bnb-chain/tss-lib/v2/common"
	cmt "github.com/bnb-chain/tss-lib/v2/crypto/commitments"
	"pgregory.net/rapid"

	"verif/harness/ev"
)

var c16Alphabet = []byte{0x00, 0x01, '$', 0x08}

func c16Strings(maxLen int) [][]byte {
	out := [][]byte{{}}
	prev := [][]byte{{}}
	for l := 1; l <= maxLen; l++ {
		var cur [][]byte
		for _, p := range prev {
			for _, a := range c16Alphabet {
				s := append(append([]byte{}, p...), a)
				cur = append(cur, s)
			}
		}
		out = append(out, cur...)
		prev = cur
	}
	return out
}

func tupleKey(parts [][]byte) string {
	var sb strings.Builder
	for _, p := range parts {
		fmt.Fprintf(&sb, "%x|", p)
	}
	return sb.String()
}

// interesting: contains the delimiter or a length-like byte next to a split point
func c16Interesting(parts [][]byte) bool {
	if len(parts) < 2 {
		return false
	}
	for i, p := range parts {
		if len(p) == 0 {
			return true
		}
		if i < len(parts)-1 {
			last := p[len(p)-1]
			if last == '$' || last == 0x01 || last == 0x08 || last == 0x00 {
				return true
			}
		}
	}
	return false
}

// TestC16HashBytesExhaustive: injectivity of SHA512_256 over every tuple of <=3 strings of length <=3.
func TestC16HashBytesExhaustive(t *testing.T) {
	r := ev.New(t, "C16")
	if _, ok := ev.Replaying(); ok {
		t.Skip()
	}
	strs := c16Strings(3)
	seen := make(map[[32]byte]string, 700000)
	n, interesting := 0, 0
	check := func(parts ...[]byte) {
		d := common.SHA512_256(parts...)
		var k [32]byte
		if len(d) != 32 {
			path := r.Violation(t.Name(), "digest-length", fmt.Sprintf("digest of %x has length %d", parts, len(d)), tupleKey(parts))
			t.Fatalf("VERIF-VIOLATION replay=%s", path)
		}
		copy(k[:], d)
		key := tupleKey(parts)
		if prev, dup := seen[k]; dup && prev != key {
			path := r.Violation(t.Name(), "collision", fmt.Sprintf("SHA512_256 collision: %s vs %s", prev, key), []string{prev, key})
			t.Fatalf("VERIF-VIOLATION replay=%s", path)
		}
		seen[k] = key
		n++
		if c16Interesting(parts) {
			interesting++
		}
	}
	for _, a := range strs {
		check(a)
	}
	for _, a := range strs {
		for _, b := range strs {
			check(a, b)
		}
	}
	for _, a := range strs {
		for _, b := range strs {
			for _, c := range strs {
				check(a, b, c)
			}
		}
	}
	if len(seen) != n {
		path := r.Violation(t.Name(), "collision-count", fmt.Sprintf("%d tuples but %d digests", n, len(seen)), n)
		t.Fatalf("VERIF-VIOLATION replay=%s", path)
	}
	r.CountN("SHA512_256 exhaustive tuples(<=3 x len<=3 over {00,01,'$',08})", n, []string{"bytes-arity1", "bytes-arity2", "bytes-arity3"},
		map[string]interface{}{"tuples": n, "with_delimiter_or_lengthlike_at_split_or_empty_part": interesting, "example": "[\"24\",\"\",\"0124\"]"})
	r.Note("exhaustive_bytes_tuples", n)
	r.Note("exhaustive_bytes_interesting", interesting)
	r.SetExhaustive(true)
}

func c16Ints(maxLen int) []*big.Int {
	seen := map[string]bool{}
	var out []*big.Int
	for _, s := range c16Strings(maxLen) {
		v := new(big.Int).SetBytes(s)
		if !seen[v.String()] {
			seen[v.String()] = true
			out = append(out, v)
		}
	}
	return out
}

func intsKey(tag []byte, vs []*big.Int) string {
	var sb strings.Builder
	fmt.Fprintf(&sb, "%x#", tag)
	for _, v := range vs {
		sb.WriteString(v.Text(16))
		sb.WriteByte('|')
	}
	return sb.String()
}

// TestC16HashIntsExhaustive: injectivity of SHA512_256i and of SHA512_256i_TAGGED (tag separation) over
// integer tuples, compared as integers.
func TestC16HashIntsExhaustive(t *testing.T) {
	r := ev.New(t, "C16")
	if _, ok := ev.Replaying(); ok {
		t.Skip()
	}
	ints := c16Ints(3)
	tags := [][]byte{nil, {}, {'$'}, {0}, {'a'}, {'a', '$'}} // nil = untagged function
	maxArity := ev.Scale(2, 3)
	seen := make(map[string]string)
	n := 0
	check := func(tagIdx int, vs ...*big.Int) {
		var d *big.Int
		if tagIdx == 0 {
			d = common.SHA512_256i(vs...)
		} else {
			d = common.SHA512_256i_TAGGED(tags[tagIdx], vs...)
		}
		key := fmt.Sprintf("%d:", tagIdx) + intsKey(tags[tagIdx], vs)
		dk := d.Text(16)
		if prev, dup := seen[dk]; dup && prev != key {
			path := r.Violation(t.Name(), "collision", fmt.Sprintf("collision: %s vs %s", prev, key), []string{prev, key})
			t.Fatalf("VERIF-VIOLATION replay=%s", path)
		}
		seen[dk] = key
		n++
	}
	var rec func(tagIdx int, cur []*big.Int, depth int)
	rec = func(tagIdx int, cur []*big.Int, depth int) {
		if len(cur) > 0 {
			check(tagIdx, cur...)
		}
		if depth == 0 {
			return
		}
		for _, v := range ints {
			rec(tagIdx, append(cur, v), depth-1)
		}
	}
	// untagged: arity <= 3 always (266k); tagged: arity <= maxArity
	rec(0, nil, 3)
	for ti := 1; ti < len(tags); ti++ {
		rec(ti, nil, maxArity)
	}
	if len(seen) != n {
		path := r.Violation(t.Name(), "collision-count", fmt.Sprintf("%d inputs but %d digests", n, len(seen)), n)
		t.Fatalf("VERIF-VIOLATION replay=%s", path)
	}
	r.CountN("SHA512_256i / _TAGGED exhaustive int tuples", n, []string{"ints-untagged", "ints-tag-empty", "ints-tag-$", "ints-tag-00", "ints-tag-a", "ints-tag-a$"},
		map[string]interface{}{"inputs": n, "distinct_ints": len(ints), "tags": []string{"(untagged)", "\"\"", "$", "00", "a", "a$"}, "tagged_arity_max": maxArity})
	r.SetExhaustive(true)
}

// --- random long tuples: metamorphic re-splitting

type c16Resplit struct {
	Parts []B
	Edit  string
	I, J  int
}

func genC16Resplit(t *rapid.T) c16Resplit {
	n := rapid.IntRange(1, 6).Draw(t, "n")
	parts := make([]B, n)
	for i := range parts {
		// bias towards delimiter / length-like bytes
		l := rapid.IntRange(0, 40).Draw(t, "len")
		b := make([]byte, l)
		for k := range b {
			if rapid.IntRange(0, 3).Draw(t, "special") == 0 {
				b[k] = rapid.SampledFrom([]byte{'$', 0, 1, 8, 0x24, 0xff}).Draw(t, "sb")
			} else {
				b[k] = rapid.Byte().Draw(t, "b")
			}
		}
		parts[i] = bx(b)
	}
	return c16Resplit{
		Parts: parts,
		Edit:  rapid.SampledFrom([]string{"shift-right", "shift-left", "merge", "split", "append-empty", "prepend-empty", "drop-last", "flip-byte", "swap"}).Draw(t, "edit"),
		I:     rapid.IntRange(0, 5).Draw(t, "i"),
		J:     rapid.IntRange(0, 40).Draw(t, "j"),
	}
}

func applyResplit(c c16Resplit) (orig, edited [][]byte) {
	for _, p := range c.Parts {
		orig = append(orig, p.Bytes())
	}
	cp := func() [][]byte {
		out := make([][]byte, len(orig))
		for i := range orig {
			out[i] = append([]byte{}, orig[i]...)
		}
		return out
	}
	e := cp()
	i := c.I % len(e)
	switch c.Edit {
	case "shift-right": // move last k bytes of part i to the front of part i+1
		if i+1 < len(e) && len(e[i]) > 0 {
			k := c.J%len(e[i]) + 1
			e[i+1] = append(append([]byte{}, e[i][len(e[i])-k:]...), e[i+1]...)
			e[i] = e[i][:len(e[i])-k]
		}
	case "shift-left":
		if i+1 < len(e) && len(e[i+1]) > 0 {
			k := c.J%len(e[i+1]) + 1
			e[i] = append(e[i], e[i+1][:k]...)
			e[i+1] = e[i+1][k:]
		}
	case "merge":
		if i+1 < len(e) {
			m := append(append([]byte{}, e[i]...), e[i+1]...)
			e = append(append(e[:i:i], m), e[i+2:]...)
		}
	case "split":
		if len(e[i]) > 0 {
			k := c.J % (len(e[i]) + 1)
			a, b := append([]byte{}, e[i][:k]...), append([]byte{}, e[i][k:]...)
			rest := append([][]byte{}, e[i+1:]...)
			e = append(append(e[:i:i], a, b), rest...)
		}
	case "append-empty":
		e = append(e, []byte{})
	case "prepend-empty":
		e = append([][]byte{{}}, e...)
	case "drop-last":
		if len(e) > 1 {
			e = e[:len(e)-1]
		}
	case "flip-byte":
		if len(e[i]) > 0 {
			e[i][c.J%len(e[i])] ^= 1 << uint(c.J%8)
		}
	case "swap":
		if i+1 < len(e) {
			e[i], e[i+1] = e[i+1], e[i]
		}
	}
	return orig, e
}

func tuplesEqual(a, b [][]byte) bool {
	if len(a) != len(b) {
		return false
	}
	for i := range a {
		if !bytes.Equal(a[i], b[i]) {
			return false
		}
	}
	return true
}

func toInts(parts [][]byte) []*big.Int {
	out := make([]*big.Int, len(parts))
	for i, p := range parts {
		out[i] = new(big.Int).SetBytes(p)
	}
	return out
}

func intsEqual(a, b []*big.Int) bool {
	if len(a) != len(b) {
		return false
	}
	for i := range a {
		if a[i].Cmp(b[i]) != 0 {
			return false
		}
	}
	return true
}

func TestC16HashResplit(t *testing.T) {
	r := ev.New(t, "C16")
	ev.Drive(t, r, genC16Resplit, func(c c16Resplit) ev.Outcome {
		orig, ed := applyResplit(c)
		out := ev.Outcome{Label: fmt.Sprintf("resplit edit=%s arity=%d", c.Edit, len(orig)), Nontrivial: !tuplesEqual(orig, ed)}
		d1, d2 := common.SHA512_256(orig...), common.SHA512_256(ed...)
		if tuplesEqual(orig, ed) != bytes.Equal(d1, d2) {
			out.Err = fmt.Errorf("SHA512_256: tuples equal=%v but digests equal=%v", tuplesEqual(orig, ed), bytes.Equal(d1, d2))
			out.Sig = "resplit-bytes"
			return out
		}
		i1, i2 := toInts(orig), toInts(ed)
		h1, h2 := common.SHA512_256i(i1...), common.SHA512_256i(i2...)
		if intsEqual(i1, i2) != (h1.Cmp(h2) == 0) {
			out.Err = fmt.Errorf("SHA512_256i: int tuples equal=%v but digests equal=%v", intsEqual(i1, i2), h1.Cmp(h2) == 0)
			out.Sig = "resplit-ints"
			return out
		}
		tag := orig[0]
		g1, g2 := common.SHA512_256i_TAGGED(tag, i1...), common.SHA512_256i_TAGGED(tag, i2...)
		if intsEqual(i1, i2) != (g1.Cmp(g2) == 0) {
			out.Err = fmt.Errorf("SHA512_256i_TAGGED: int tuples equal=%v but digests equal=%v", intsEqual(i1, i2), g1.Cmp(g2) == 0)
			out.Sig = "resplit-tagged"
			return out
		}
		if g1.Cmp(h1) == 0 {
			out.Err = fmt.Errorf("tagged digest equals untagged digest")
			out.Sig = "tag-separation"
			return out
		}
		// another tag => another digest
		tag2 := append(append([]byte{}, tag...), 0)
		if common.SHA512_256i_TAGGED(tag2, i1...).Cmp(g1) == 0 {
			out.Err = fmt.Errorf("digest does not depend on the tag")
			out.Sig = "tag-separation"
		}
		return out
	})
}

// --- commitments: single edits of the decommitment

type c16Commit struct {
	R       H
	Secrets []H
	Edit    string
	I, J    int
}

func genC16Commit(t *rapid.T) c16Commit {
	n := rapid.IntRange(1, 8).Draw(t, "n")
	q := new(big.Int).Lsh(one, 256)
	secrets := make([]H, n)
	for i := range secrets {
		v, _ := boundaryBelow(t, "s", q)
		secrets[i] = hx(v)
	}
	rv, _ := boundaryBelow(t, "r", q)
	return c16Commit{
		R: hx(rv), Secrets: secrets,
		Edit: rapid.SampledFrom([]string{"none", "inc", "dec", "insert0", "insert-copy", "delete", "merge", "split", "swap", "drop-r", "dup-r", "r-into-secret", "zero"}).Draw(t, "edit"),
		I:    rapid.IntRange(0, 8).Draw(t, "i"),
		J:    rapid.IntRange(0, 31).Draw(t, "j"),
	}
}

func runC16Commit(c c16Commit) (out ev.Outcome) {
	out = ev.Outcome{Label: fmt.Sprintf("commit edit=%s n=%d", c.Edit, len(c.Secrets)), Nontrivial: c.Edit != "none"}
	secrets := bigs(c.Secrets)
	var watch bigWatch
	defer func() { watch.finish(&out, "commitment") }()
	watch.add("secret", secrets...)
	cd := cmt.NewHashCommitmentWithRandomness(c.R.Big(), secrets...)
	if !cd.Verify() {
		out.Err, out.Sig = fmt.Errorf("honest commitment does not verify"), "honest-verify"
		return out
	}
	ok, got := cd.DeCommit()
	if !ok || !intsEqual(got, secrets) {
		out.Err, out.Sig = fmt.Errorf("DeCommit did not return exactly the committed secrets: ok=%v got=%v", ok, got), "decommit-values"
		return out
	}
	D := append([]*big.Int{}, cd.D...)
	i := c.I % len(D)
	switch c.Edit {
	case "none":
		return out
	case "inc":
		D[i] = add(D[i], 1)
	case "dec":
		if D[i].Sign() == 0 {
			D[i] = big.NewInt(1)
		} else {
			D[i] = add(D[i], -1)
		}
	case "zero":
		if D[i].Sign() == 0 {
			D[i] = big.NewInt(1)
		} else {
			D[i] = big.NewInt(0)
		}
	case "insert0":
		D = append(D[:i:i], append([]*big.Int{big.NewInt(0)}, D[i:]...)...)
	case "insert-copy":
		D = append(D[:i:i], append([]*big.Int{new(big.Int).Set(D[i])}, D[i:]...)...)
	case "delete":
		D = append(D[:i:i], D[i+1:]...)
		if len(D) == 0 {
			out.Skip = true
			return out
		}
	case "merge": // concatenate bytes of D[i] and D[i+1] into one element
		if i+1 >= len(D) {
			i = 0
		}
		if len(D) < 2 {
			out.Skip = true
			return out
		}
		m := new(big.Int).SetBytes(append(append([]byte{}, D[i].Bytes()...), D[i+1].Bytes()...))
		D = append(D[:i:i], append([]*big.Int{m}, D[i+2:]...)...)
	case "split":
		bz := D[i].Bytes()
		if len(bz) < 2 {
			out.Skip = true
			return out
		}
		k := c.J%(len(bz)-1) + 1
		a, b := new(big.Int).SetBytes(bz[:k]), new(big.Int).SetBytes(bz[k:])
		D = append(D[:i:i], append([]*big.Int{a, b}, D[i+1:]...)...)
	case "swap":
		if len(D) < 2 {
			out.Skip = true
			return out
		}
		if i+1 >= len(D) {
			i = 0
		}
		if D[i].Cmp(D[i+1]) == 0 {
			out.Skip = true
			return out
		}
		D[i], D[i+1] = D[i+1], D[i]
	case "drop-r":
		D = D[1:]
	case "dup-r":
		D = append([]*big.Int{D[0]}, D...)
	case "r-into-secret": // r'=r||s1 bytes, secrets shifted: regrouping across the r/secrets boundary
		m := new(big.Int).SetBytes(append(append([]byte{}, D[0].Bytes()...), D[1].Bytes()...))
		D = append([]*big.Int{m}, D[2:]...)
	}
	if intsEqual(D, cd.D) {
		out.Skip = true
		return out
	}
	ed := cmt.HashCommitDecommit{C: cd.C, D: D}
	if ed.Verify() {
		out.Err, out.Sig = fmt.Errorf("edited decommitment (%s at %d) still verifies", c.Edit, i), "edit-accepted"
		return out
	}
	// the same OBJECT that already verified and opened once, with its exported fields reassigned (and a struct
	// copy of it): a check must never be remembered
	reused := cd
	reused.D = D
	if reused.Verify() {
		out.Err, out.Sig = fmt.Errorf("an object that verified once still verifies after its decommitment was edited (%s at %d)", c.Edit, i), "edit-accepted-reused-object"
		return out
	}
	if ok, vals := reused.DeCommit(); ok || vals != nil {
		out.Err, out.Sig = fmt.Errorf("an object that opened once still opens after its decommitment was edited (%s at %d)", c.Edit, i), "edit-accepted-reused-object"
		return out
	}
	cpy := *cd
	cpy.C = add(cd.C, 1)
	if cpy.Verify() {
		out.Err, out.Sig = fmt.Errorf("a copy of an object that verified once still verifies after its commitment value was changed"), "edit-accepted-reused-object"
		return out
	}
	if ok, vals := ed.DeCommit(); ok || vals != nil {
		out.Err, out.Sig = fmt.Errorf("DeCommit of an edited decommitment returned ok=%v vals=%v", ok, vals), "edit-decommit"
		return out
	}
	// same r, different secret sequence => different C
	other := cmt.NewHashCommitmentWithRandomness(D[0], D[1:]...)
	if len(D) > 1 && other.C.Cmp(cd.C) == 0 {
		out.Err, out.Sig = fmt.Errorf("two different decommitments share a commitment"), "binding"
	}
	return out
}

func TestC16Commit(t *testing.T) {
	r := ev.New(t, "C16")
	ev.Drive(t, r, genC16Commit, runC16Commit)
}

// --- builder / parser

type c16Parts struct {
	Parts [][]H
}

func genC16Parts(t *rapid.T) c16Parts {
	n := rapid.IntRange(1, 3).Draw(t, "nparts")
	parts := make([][]H, n)
	for i := range parts {
		l := rapid.IntRange(0, 4).Draw(t, "plen")
		parts[i] = make([]H, l)
		for k := range parts[i] {
			v := rapid.SampledFrom([]int64{0, 1, 2, 3, 4, 5, 1 << 20, 1<<20 + 1, 1 << 40}).Draw(t, "v")
			parts[i][k] = hx(big.NewInt(v))
		}
	}
	return c16Parts{Parts: parts}
}

func partsToBig(p [][]H) [][]*big.Int {
	out := make([][]*big.Int, len(p))
	for i := range p {
		out[i] = bigs(p[i])
	}
	return out
}

func partsEqual(a, b [][]*big.Int) bool {
	if len(a) != len(b) {
		return false
	}
	for i := range a {
		if !intsEqual(a[i], b[i]) {
			return false
		}
	}
	return true
}

func runC16RoundTrip(c c16Parts) ev.Outcome {
	parts := partsToBig(c.Parts)
	empties := 0
	for _, p := range parts {
		if len(p) == 0 {
			empties++
		}
	}
	out := ev.Outcome{Label: fmt.Sprintf("roundtrip parts=%d empties=%d", len(parts), empties), Nontrivial: len(parts) > 1 || empties > 0}
	b := cmt.NewBuilder()
	for _, p := range parts {
		b.AddPart(p)
	}
	secrets, err := b.Secrets()
	if err != nil {
		out.Err, out.Sig = fmt.Errorf("builder refused a layout within its limits: %v", err), "builder-refused"
		return out
	}
	var parsed [][]*big.Int
	var perr error
	if p := mustNoPanic(func() { parsed, perr = cmt.ParseSecrets(secrets) }); p != nil {
		out.Err, out.Sig = fmt.Errorf("ParseSecrets panicked: %v", p), "parser-panic"
		return out
	}
	if perr != nil {
		out.Err = fmt.Errorf("ParseSecrets(Secrets(parts)) failed: %v (parts=%v)", perr, c.Parts)
		out.Sig = "roundtrip-refused"
		if empties > 0 {
			out.Sig = "roundtrip-empty-part"
		}
		return out
	}
	if !partsEqual(parsed, parts) {
		out.Err = fmt.Errorf("ParseSecrets(Secrets(parts)) != parts: got %d parts for %v", len(parsed), c.Parts)
		out.Sig = "roundtrip-mismatch"
		if empties > 0 {
			out.Sig = "roundtrip-empty-part"
		}
	}
	return out
}

func TestC16BuilderRoundTrip(t *testing.T) {
	r := ev.New(t, "C16")
	ev.Drive(t, r, genC16Parts, runC16RoundTrip)
}

// TestC16BuilderLayoutsExhaustive enumerates every layout of <=3 parts with lengths 0..4 (fixed contents).
func TestC16BuilderLayoutsExhaustive(t *testing.T) {
	r := ev.New(t, "C16")
	var cases []c16Parts
	mk := func(lens ...int) c16Parts {
		p := make([][]H, len(lens))
		v := int64(0)
		for i, l := range lens {
			p[i] = make([]H, l)
			for k := range p[i] {
				p[i][k] = hx(big.NewInt(v % 4)) // values that look like lengths
				v++
			}
		}
		return c16Parts{Parts: p}
	}
	for a := 0; a <= 4; a++ {
		cases = append(cases, mk(a))
		for b := 0; b <= 4; b++ {
			cases = append(cases, mk(a, b))
			for c := 0; c <= 4; c++ {
				cases = append(cases, mk(a, b, c))
			}
		}
	}
	ev.Each(t, r, cases, runC16RoundTrip)
	r.SetExhaustive(true)
}

// malformed parser input

type c16Malformed struct {
	Base  c16Parts
	Kind  string
	I     int
	Value H
}

func genC16Malformed(t *rapid.T) c16Malformed {
	base := genC16Parts(t)
	forged := []H{
		hx(new(big.Int).SetUint64(^uint64(0))), // 2^64-1 (== -1 as int64)
		hx(new(big.Int).Lsh(one, 63)),          // 2^63
		hx(add(new(big.Int).Lsh(one, 63), 5)),  // 2^63+5
		hx(new(big.Int).Lsh(one, 64)),          // 2^64 (truncates to 0)
		hx(add(new(big.Int).Lsh(one, 64), 1)),  // 2^64+1 (truncates to 1)
		hx(big.NewInt(cmt.MaxPartSize + 1)),    // just above the cap
		hx(big.NewInt(cmt.MaxPartSize)),        // at the cap, not enough data
		hx(new(big.Int).Lsh(one, 200)),         // huge
		hx(big.NewInt(6)), hx(big.NewInt(100)), // more than available
		hx(new(big.Int).SetUint64(1<<63 - 1)), // MaxInt64: position + length overflows
		hx(new(big.Int).SetUint64(1<<63 - 2)), hx(new(big.Int).SetUint64(1<<63 - 3)), hx(new(big.Int).SetUint64(1<<63 - 9)),
		hx(new(big.Int).SetUint64(1 << 62)), hx(new(big.Int).SetUint64(1<<62 + 1<<61)),
	}
	return c16Malformed{
		Base:  base,
		Kind:  rapid.SampledFrom([]string{"truncate", "forge-length", "extra-part", "append-garbage", "too-many-parts"}).Draw(t, "kind"),
		I:     rapid.IntRange(0, 20).Draw(t, "i"),
		Value: rapid.SampledFrom(forged).Draw(t, "forged"),
	}
}

func runC16Malformed(c c16Malformed) ev.Outcome {
	out := ev.Outcome{Label: "malformed " + c.Kind, Nontrivial: true}
	parts := partsToBig(c.Base.Parts)
	b := cmt.NewBuilder()
	for _, p := range parts {
		b.AddPart(p)
	}
	secrets, err := b.Secrets()
	if err != nil {
		out.Skip = true
		return out
	}
	in := append([]*big.Int{}, secrets...)
	switch c.Kind {
	case "truncate":
		k := c.I % len(in)
		in = in[:k]
	case "forge-length":
		// positions of length elements
		var pos []int
		p := 0
		for _, part := range parts {
			pos = append(pos, p)
			p += 1 + len(part)
		}
		in[pos[c.I%len(pos)]] = c.Value.Big()
		out.Label += " " + lenClass(c.Value.Big())
	case "extra-part":
		in = append(in, big.NewInt(1), big.NewInt(7))
	case "append-garbage":
		in = append(in, c.Value.Big())
		out.Label += " " + lenClass(c.Value.Big())
	case "too-many-parts":
		for len(parts) < 4 {
			in = append(in, big.NewInt(1), big.NewInt(9))
			parts = append(parts, nil)
		}
	}
	var parsed [][]*big.Int
	var perr error
	if p := mustNoPanic(func() { parsed, perr = cmt.ParseSecrets(in) }); p != nil {
		out.Err, out.Sig = fmt.Errorf("ParseSecrets panicked on %v: %v", hxs(in), p), "parser-panic"
		return out
	}
	if perr != nil {
		return out // rejected with an error: fine
	}
	// accepted: it must be the canonical encoding of what was parsed, within the caps
	if len(parsed) > cmt.PartsCap {
		out.Err, out.Sig = fmt.Errorf("parser accepted %d parts (cap %d)", len(parsed), cmt.PartsCap), "parser-cap"
		return out
	}
	b2 := cmt.NewBuilder()
	for _, p := range parsed {
		b2.AddPart(p)
	}
	re, err := b2.Secrets()
	if err != nil || !intsEqual(re, in) {
		out.Err = fmt.Errorf("parser accepted %v as %d parts, which re-encodes to %v (err %v): wrong parse", hxs(in), len(parsed), hxs(re), err)
		out.Sig = "parser-wrong-parse"
		if len(in) > 0 && in[len(in)-1].Sign() == 0 {
			out.Sig = "roundtrip-empty-part"
		}
	}
	return out
}

func lenClass(v *big.Int) string {
	switch {
	case v.BitLen() > 64:
		return "len>2^64"
	case v.BitLen() == 64:
		return "len>=2^63"
	case v.BitLen() >= 62:
		return "len~MaxInt64"
	case v.Cmp(big.NewInt(cmt.MaxPartSize)) >= 0:
		return "len>=cap"
	default:
		return "len>avail"
	}
}

func TestC16ParserMalformed(t *testing.T) {
	r := ev.New(t, "C16")
	ev.Drive(t, r, genC16Malformed, runC16Malformed)
}

// TestC16BuilderCaps: layouts beyond the caps are refused by the builder.
func TestC16BuilderCaps(t *testing.T) {
	r := ev.New(t, "C16")
	if _, ok := ev.Replaying(); ok {
		t.Skip()
	}
	b := cmt.NewBuilder()
	for i := 0; i < 4; i++ {
		b.AddPart([]*big.Int{one})
	}
	if _, err := b.Secrets(); err == nil {
		path := r.Violation(t.Name(), "cap-parts", "builder accepted 4 parts", 4)
		t.Fatalf("VERIF-VIOLATION replay=%s", path)
	}
	r.Count("builder cap parts=4", true, "4 parts of one element")
	big1 := make([]*big.Int, cmt.MaxPartSize+1)
	for i := range big1 {
		big1[i] = one
	}
	b = cmt.NewBuilder()
	b.AddPart(big1)
	if _, err := b.Secrets(); err == nil {
		path := r.Violation(t.Name(), "cap-size", "builder accepted an oversized part", len(big1))
		t.Fatalf("VERIF-VIOLATION replay=%s", path)
	}
	r.Count("builder cap size=Max+1", true, "one part of MaxPartSize+1 elements")
	// exactly at the cap is fine and round-trips
	b = cmt.NewBuilder()
	b.AddPart(big1[:cmt.MaxPartSize])
	s, err := b.Secrets()
	if err != nil {
		path := r.Violation(t.Name(), "cap-size-at", "builder refused a part of exactly MaxPartSize", cmt.MaxPartSize)
		t.Fatalf("VERIF-VIOLATION replay=%s", path)
	}
	p, err := cmt.ParseSecrets(s)
	if err != nil || len(p) != 1 || len(p[0]) != int(cmt.MaxPartSize) {
		path := r.Violation(t.Name(), "cap-size-roundtrip", fmt.Sprintf("part of MaxPartSize does not round-trip: %v", err), cmt.MaxPartSize)
		t.Fatalf("VERIF-VIOLATION replay=%s", path)
	}
	r.Count("builder cap size=Max", true, "one part of MaxPartSize elements round-trips")
	_ = reflect.DeepEqual
}

// --- framing bytes appearing literally inside elements: constructions that collide under any framing
// that omits the delimiter, the per-element length, or the last element's suffix.

type c16Inject struct {
	Prefix  []B
	A, X, Y B
	Form    string
}

func genC16Inject(t *rapid.T) c16Inject {
	c := c16Inject{Form: rapid.SampledFrom([]string{"sep-only", "delim-only", "merge-full", "len-only", "shifted-suffix"}).Draw(t, "form")}
	np := rapid.IntRange(0, 2).Draw(t, "nprefix")
	for i := 0; i < np; i++ {
		c.Prefix = append(c.Prefix, bx(drawBytes(t, "p", 0, 12)))
	}
	nz := func(label string, lo, hi int) B { // no leading zero byte, so that the integer view keeps the bytes
		b := drawBytes(t, label, lo, hi)
		if len(b) > 0 && b[0] == 0 {
			b[0] = 0x7f
		}
		return bx(b)
	}
	c.A, c.X, c.Y = nz("a", 1, 20), nz("x", 0, 20), nz("y", 1, 20)
	return c
}

func le64(n int) []byte {
	b := make([]byte, 8)
	for i := 0; i < 8; i++ {
		b[i] = byte(uint64(n) >> (8 * uint(i)))
	}
	return b
}

func cat(parts ...[]byte) []byte {
	var out []byte
	for _, p := range parts {
		out = append(out, p...)
	}
	return out
}

func runC16Inject(c c16Inject) ev.Outcome {
	out := ev.Outcome{Label: fmt.Sprintf("framing-injection form=%s prefix=%d", c.Form, len(c.Prefix)), Nontrivial: true}
	a, x, y := c.A.Bytes(), c.X.Bytes(), c.Y.Bytes()
	var t1, t2 [][]byte
	for _, p := range c.Prefix {
		t1 = append(t1, p.Bytes())
		t2 = append(t2, p.Bytes())
	}
	d := []byte{'$'}
	switch c.Form {
	case "sep-only": // collide when the last element carries no length suffix
		t1 = append(t1, a, cat(x, d, le64(len(a)+9+len(x)), y))
		t2 = append(t2, cat(a, d, le64(len(a)), x), y)
	case "delim-only": // collide when only a delimiter separates elements
		t1 = append(t1, a, y)
		t2 = append(t2, cat(a, d, y))
	case "merge-full": // the complete literal framing of a inside one element
		t1 = append(t1, a, y)
		t2 = append(t2, cat(a, d, le64(len(a)), y))
	case "len-only": // collide when elements are only length-suffixed without delimiter
		t1 = append(t1, a, y)
		t2 = append(t2, cat(a, le64(len(a)), y))
	case "shifted-suffix": // the suffix of a moved into the next element
		t1 = append(t1, cat(a, d), cat(le64(len(a)), y))
		t2 = append(t2, a, cat(d, le64(len(a)), y))
	}
	if tuplesEqual(t1, t2) {
		out.Skip = true
		return out
	}
	if bytes.Equal(common.SHA512_256(t1...), common.SHA512_256(t2...)) {
		out.Err, out.Sig = fmt.Errorf("SHA512_256 collision between %x and %x", t1, t2), "framing-collision"
		return out
	}
	i1, i2 := toInts(t1), toInts(t2)
	if !intsEqual(i1, i2) {
		if common.SHA512_256i(i1...).Cmp(common.SHA512_256i(i2...)) == 0 {
			out.Err, out.Sig = fmt.Errorf("SHA512_256i collision between %x and %x", t1, t2), "framing-collision"
			return out
		}
		if common.SHA512_256i_TAGGED(a, i1...).Cmp(common.SHA512_256i_TAGGED(a, i2...)) == 0 {
			out.Err, out.Sig = fmt.Errorf("SHA512_256i_TAGGED collision between %x and %x", t1, t2), "framing-collision"
			return out
		}
		// the same pair as a commitment: one commitment, two openings
		c1 := cmt.NewHashCommitmentWithRandomness(i1[0], i1[1:]...)
		alt := cmt.HashCommitDecommit{C: c1.C, D: i2}
		if alt.Verify() {
			out.Err, out.Sig = fmt.Errorf("commitment opens to two different decommitments: %x and %x", t1, t2), "framing-collision"
		}
	}
	return out
}

func TestC16HashFramingInjection(t *testing.T) {
	r := ev.New(t, "C16")
	ev.Drive(t, r, genC16Inject, runC16Inject)
}

// cmtNew: the library's own commitment function (the deviator uses it like everybody else).
func cmtNew(r *big.Int, vals []*big.Int) *cmt.HashCommitDecommit {
	return cmt.NewHashCommitmentWithRandomness(r, vals...)
}

package props

// Wire-level rewriting of protocol messages (the "network adversary" of C04/C05/C06): messages are
// protobuf Any values whose content has only bytes / repeated bytes fields.

import (
	"fmt"
	"math/big"

	"github.com/bnb-chain/tss-lib/v2/crypto"
	"google.golang.org/protobuf/proto"
	"google.golang.org/protobuf/reflect/protoreflect"
	"google.golang.org/protobuf/types/known/anypb"

	"verif/harness/sim"
)

// rewriteWire decodes wire bytes (a marshalled Any), lets edit modify the content, and re-encodes.
func rewriteWire(wire []byte, edit func(m protoreflect.Message)) ([]byte, error) {
	any := new(anypb.Any)
	if err := proto.Unmarshal(wire, any); err != nil {
		return nil, err
	}
	content, err := any.UnmarshalNew()
	if err != nil {
		return nil, err
	}
	edit(content.ProtoReflect())
	re, err := anypb.New(content)
	if err != nil {
		return nil, err
	}
	return proto.Marshal(re)
}

// fieldRef names one value inside a message: a bytes field, or one element of a repeated bytes field.
type fieldRef struct {
	Name string
	Idx  int // -1 for a singular field
}

func (f fieldRef) String() string {
	if f.Idx < 0 {
		return f.Name
	}
	return fmt.Sprintf("%s[%d]", f.Name, f.Idx)
}

// listFields enumerates every bytes value of a message content.
func listFields(wire []byte) (typ string, refs []fieldRef, lens map[string]int, err error) {
	lens = map[string]int{}
	_, err = rewriteWire(wire, func(m protoreflect.Message) {
		typ = string(m.Descriptor().FullName())
		fds := m.Descriptor().Fields()
		for i := 0; i < fds.Len(); i++ {
			fd := fds.Get(i)
			if fd.Kind() != protoreflect.BytesKind {
				continue
			}
			if fd.IsList() {
				l := m.Get(fd).List()
				lens[string(fd.Name())] = l.Len()
				for k := 0; k < l.Len(); k++ {
					refs = append(refs, fieldRef{string(fd.Name()), k})
				}
			} else {
				refs = append(refs, fieldRef{string(fd.Name()), -1})
			}
		}
	})
	return
}

func getField(m protoreflect.Message, f fieldRef) []byte {
	fd := m.Descriptor().Fields().ByName(protoreflect.Name(f.Name))
	if fd == nil {
		return nil
	}
	if f.Idx < 0 {
		return m.Get(fd).Bytes()
	}
	l := m.Get(fd).List()
	if f.Idx >= l.Len() {
		return nil
	}
	return l.Get(f.Idx).Bytes()
}

func setField(m protoreflect.Message, f fieldRef, v []byte) {
	fd := m.Descriptor().Fields().ByName(protoreflect.Name(f.Name))
	if fd == nil {
		return
	}
	if f.Idx < 0 {
		m.Set(fd, protoreflect.ValueOfBytes(v))
		return
	}
	l := m.Mutable(fd).List()
	if f.Idx < l.Len() {
		l.Set(f.Idx, protoreflect.ValueOfBytes(v))
	}
}

// removeField clears a singular field or shortens a list by removing element Idx.
func removeField(m protoreflect.Message, f fieldRef) {
	fd := m.Descriptor().Fields().ByName(protoreflect.Name(f.Name))
	if fd == nil {
		return
	}
	if f.Idx < 0 {
		m.Clear(fd)
		return
	}
	l := m.Mutable(fd).List()
	var keep [][]byte
	for k := 0; k < l.Len(); k++ {
		if k != f.Idx {
			keep = append(keep, append([]byte{}, l.Get(k).Bytes()...))
		}
	}
	l.Truncate(0)
	for _, b := range keep {
		l.Append(protoreflect.ValueOfBytes(b))
	}
}

func appendField(m protoreflect.Message, name string, v []byte) {
	fd := m.Descriptor().Fields().ByName(protoreflect.Name(name))
	if fd == nil || !fd.IsList() {
		return
	}
	m.Mutable(fd).List().Append(protoreflect.ValueOfBytes(v))
}

// readField extracts one value from wire bytes.
func readField(wire []byte, f fieldRef) []byte {
	var out []byte
	_, _ = rewriteWire(wire, func(m protoreflect.Message) { out = append([]byte{}, getField(m, f)...) })
	return out
}

// rewriteAnnouncedKey makes a resharing round-1 broadcast announce twice the real public key.
func rewriteAnnouncedKey(x *runCtx, e *sim.Emit) []byte {
	pt, err := crypto.NewECPoint(x.cv.EC, x.pubX, x.pubY)
	if err != nil {
		panic(err)
	}
	other := pt.ScalarMult(big.NewInt(2))
	xn, yn := "ecdsa_pub_x", "ecdsa_pub_y"
	if x.p.edd() {
		xn, yn = "eddsa_pub_x", "eddsa_pub_y"
	}
	out, err := rewriteWire(e.Bytes, func(m protoreflect.Message) {
		setField(m, fieldRef{xn, -1}, other.X().Bytes())
		setField(m, fieldRef{yn, -1}, other.Y().Bytes())
	})
	if err != nil {
		panic(err)
	}
	return out
}

package props

import (
	"crypto/sha256"
	"encoding/binary"
	"fmt"
	"io"
	"sync"

	"pgregory.net/rapid"

	"verif/harness/sim"
)

// SchedSpec is the JSON form of a delivery schedule strategy.
type SchedSpec struct {
	Kind    string // fifo | lifo | starve | prestart | dupall | choices | hold
	Hold    []int  `json:",omitempty"` // hold: creation numbers of the deliveries held back until nothing else is deliverable
	P       int    // focus party for starve / prestart
	Choices []int  `json:",omitempty"`
	DupPct  int    `json:",omitempty"`
	// holdmsg: the copy of message type HoldType from party HoldFrom to party HoldTo is held back until nothing else is deliverable
	HoldType string `json:",omitempty"`
	HoldFrom int    `json:",omitempty"`
	HoldTo   int    `json:",omitempty"`
	Parsed   int    // percent of deliveries made through Update(parsed) instead of UpdateFromBytes
}

func genSched(t *rapid.T, nNodes int, kinds []string) SchedSpec {
	s := SchedSpec{Kind: rapid.SampledFrom(kinds).Draw(t, "sched")}
	s.P = rapid.IntRange(0, nNodes-1).Draw(t, "focus")
	s.Parsed = rapid.SampledFrom([]int{0, 0, 50, 100}).Draw(t, "parsedPct")
	if s.Kind == "choices" || s.Kind == "choices-dup" {
		n := rapid.IntRange(5, 400).Draw(t, "nchoices")
		s.Choices = rapid.SliceOfN(rapid.IntRange(0, 1<<20), n, n).Draw(t, "choices")
		if s.Kind == "choices-dup" {
			s.DupPct = rapid.IntRange(5, 40).Draw(t, "dupPct")
		}
	}
	if s.Kind == "duplate" {
		s.P = rapid.IntRange(1, 6*nNodes*(nNodes-1)).Draw(t, "lag")
	}
	if s.Kind == "hold" {
		// a session of n parties creates roughly rounds*n*(n-1) deliveries; most of the draws fall inside a run
		s.Hold = rapid.SliceOfNDistinct(rapid.IntRange(0, 12*nNodes*(nNodes-1)), 1, 3, rapid.ID[int]).Draw(t, "hold")
	}
	return s
}

var schedNoDup = []string{"fifo", "lifo", "starve", "prestart", "hold", "hold", "choices", "choices"}
var schedAll = []string{"fifo", "lifo", "starve", "prestart", "dupall", "duplate", "hold", "hold", "choices", "choices", "choices-dup"}
var schedNoPre = []string{"fifo", "lifo", "starve", "hold", "hold", "choices", "choices"}

func (s SchedSpec) Make() sim.Scheduler {
	switch s.Kind {
	case "lifo":
		return sim.LIFO{}
	case "starve":
		return sim.Starve{P: s.P}
	case "prestart":
		return sim.PreStart{P: s.P}
	case "dupall":
		return &sim.DupAll{}
	case "duplate":
		return &sim.DupLate{Lag: s.P}
	case "hold":
		return &sim.HoldSome{IDs: s.Hold}
	case "holdmsg":
		return &sim.HoldSome{Match: func(d *sim.Delivery) bool {
			return d.E.Type == s.HoldType && d.E.From == s.HoldFrom && d.To == s.HoldTo
		}}
	case "choices", "choices-dup":
		return &sim.Choices{List: s.Choices, DupPct: s.DupPct}
	}
	return sim.FIFO{}
}

func (s SchedSpec) Class() string {
	c := s.Kind
	if s.Kind == "holdmsg" {
		c += fmt.Sprintf("(%s %d->%d)", shortType(s.HoldType), s.HoldFrom, s.HoldTo)
	}
	if s.Parsed == 100 {
		c += "+parsed"
	} else if s.Parsed > 0 {
		c += "+mixed"
	}
	return c
}

// apply installs the entry-point choice on the net.
func (s SchedSpec) apply(n *sim.Net) {
	if s.Parsed > 0 {
		pct := s.Parsed
		n.UseParsed = func(d *sim.Delivery) bool { return (d.ID*37+11)%100 < pct }
	}
}

// drbg is a deterministic byte stream (SHA-256 in counter mode), used where a case wants to own a
// party's coins (e.g. to steer a nonce).
type drbg struct {
	mu   sync.Mutex
	seed [32]byte
	ctr  uint64
	buf  []byte
}

func newDRBG(seed string) *drbg { return &drbg{seed: sha256.Sum256([]byte(seed))} }

func (d *drbg) Read(p []byte) (int, error) {
	d.mu.Lock()
	defer d.mu.Unlock()
	for i := range p {
		if len(d.buf) == 0 {
			var c [8]byte
			binary.BigEndian.PutUint64(c[:], d.ctr)
			d.ctr++
			h := sha256.Sum256(append(d.seed[:], c[:]...))
			d.buf = h[:]
		}
		p[i] = d.buf[0]
		d.buf = d.buf[1:]
	}
	return len(p), nil
}

// prefixReader yields the given bytes first and then continues with the fallback reader.
type prefixReader struct {
	prefix []byte
	rest   io.Reader
}

func (p *prefixReader) Read(b []byte) (int, error) {
	if len(p.prefix) > 0 {
		n := copy(b, p.prefix)
		p.prefix = p.prefix[n:]
		return n, nil
	}
	return p.rest.Read(b)
}

func describeNet(n *sim.Net) string {
	s := ""
	for _, nd := range n.Nodes {
		st := "waiting"
		if nd.Finished() {
			st = "finished"
		}
		if nd.Errored() {
			st = "error: " + nd.Errs[0].Error()
		}
		s += fmt.Sprintf("[node %d %s %s %s] ", nd.Idx, nd.Role, nd.P.String(), st)
	}
	return s
}

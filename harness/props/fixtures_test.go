package props

import (
	"encoding/json"
	"fmt"
	"os"
	"sync"

	"github.com/bnb-chain/tss-lib/v2/ecdsa/keygen"
	edkeygen "github.com/bnb-chain/tss-lib/v2/eddsa/keygen"
	"github.com/bnb-chain/tss-lib/v2/tss"
)

// repoRoot is where the library checkout lives (only the vendored fixture files are read from it).
var repoRoot = func() string {
	if r := os.Getenv("VERIF_REPO_ROOT"); r != "" {
		return r
	}
	return "/repo"
}()

var (
	ecFixOnce sync.Once
	ecFix     []keygen.LocalPartySaveData
	edFixOnce sync.Once
	edFix     []edkeygen.LocalPartySaveData
)

// ecdsaFixtures returns fresh deep copies (re-parsed JSON) of the 5 vendored ECDSA key files (n=5,t=2).
func loadECDSAFixtures() []keygen.LocalPartySaveData {
	out := make([]keygen.LocalPartySaveData, 0, 5)
	for i := 0; i < 5; i++ {
		bz, err := os.ReadFile(fmt.Sprintf("%s/test/_ecdsa_fixtures/keygen_data_%d.json", repoRoot, i))
		if err != nil {
			panic(err)
		}
		var k keygen.LocalPartySaveData
		if err := json.Unmarshal(bz, &k); err != nil {
			panic(err)
		}
		for _, p := range k.BigXj {
			p.SetCurve(tss.S256())
		}
		k.ECDSAPub.SetCurve(tss.S256())
		out = append(out, k)
	}
	return out
}

func ecdsaFixtures() []keygen.LocalPartySaveData {
	ecFixOnce.Do(func() { ecFix = loadECDSAFixtures() })
	return ecFix
}

func loadEDDSAFixtures() []edkeygen.LocalPartySaveData {
	out := make([]edkeygen.LocalPartySaveData, 0, 5)
	for i := 0; i < 5; i++ {
		bz, err := os.ReadFile(fmt.Sprintf("%s/test/_eddsa_fixtures/keygen_data_%d.json", repoRoot, i))
		if err != nil {
			panic(err)
		}
		var k edkeygen.LocalPartySaveData
		if err := json.Unmarshal(bz, &k); err != nil {
			panic(err)
		}
		for _, p := range k.BigXj {
			p.SetCurve(tss.Edwards())
		}
		k.EDDSAPub.SetCurve(tss.Edwards())
		out = append(out, k)
	}
	return out
}

func eddsaFixtures() []edkeygen.LocalPartySaveData {
	edFixOnce.Do(func() { edFix = loadEDDSAFixtures() })
	return edFix
}

// preParams returns the 5 vendored pre-parameter sets (Paillier key, NTilde, h1, h2, alpha, beta, p, q).
func preParams() []keygen.LocalPreParams {
	fx := ecdsaFixtures()
	out := make([]keygen.LocalPreParams, len(fx))
	for i := range fx {
		out[i] = fx[i].LocalPreParams
	}
	return out
}

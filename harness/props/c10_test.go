package props

// C10 — Every honestly generated zero-knowledge proof verifies, also after encoding.

import (
	"crypto/rand"
	"fmt"
	"math/big"
	"testing"

	"github.com/bnb-chain/tss-lib/v2/common"
	"github.com/bnb-chain/tss-lib/v2/crypto"
	"github.com/bnb-chain/tss-lib/v2/crypto/dlnproof"
	"github.com/bnb-chain/tss-lib/v2/crypto/facproof"
	"github.com/bnb-chain/tss-lib/v2/crypto/modproof"
	"github.com/bnb-chain/tss-lib/v2/crypto/mta"
	"github.com/bnb-chain/tss-lib/v2/crypto/paillier"
	"github.com/bnb-chain/tss-lib/v2/crypto/schnorr"
	eckeygen "github.com/bnb-chain/tss-lib/v2/ecdsa/keygen"
	ecsigning "github.com/bnb-chain/tss-lib/v2/ecdsa/signing"
	edsigning "github.com/bnb-chain/tss-lib/v2/eddsa/signing"
	"github.com/bnb-chain/tss-lib/v2/tss"
	"pgregory.net/rapid"

	"verif/harness/ev"
)

var sessionClasses = []string{"nil", "empty", "1byte", "32bytes", "1kB", "ssid||idx", "ssid||idx"}

// sessArg builds the session argument as a fresh slice (nil for the class "nil"): prover and verifier each get
// their own, so no proof can depend on the identity of the slice it was made with.
func sessArg(b B, cls string) []byte {
	if cls == "nil" {
		return nil
	}
	return b.Bytes()
}

// sessArgOther: the same byte string in its other spelling where one exists (nil <-> empty, spare capacity).
func sessArgOther(b B, cls string) []byte {
	switch cls {
	case "nil":
		return []byte{}
	case "empty":
		return nil
	}
	out := make([]byte, 0, len(b.Bytes())+17)
	return append(out, b.Bytes()...)
}

func genSession(t *rapid.T) (B, string) {
	cls := rapid.SampledFrom(sessionClasses).Draw(t, "session")
	switch cls {
	case "nil", "empty":
		return bx(nil), cls
	case "1byte":
		return bx(drawBytes(t, "sess", 1, 1)), cls
	case "32bytes":
		return bx(drawBytes(t, "sess", 32, 32)), cls
	case "1kB":
		return bx(drawBytes(t, "sess", 1024, 1024)), cls
	}
	ssid := drawBytes(t, "sess", 32, 32)
	idx := rapid.IntRange(0, 5).Draw(t, "idx")
	return bx(append(ssid, big.NewInt(int64(idx)).Bytes()...)), cls
}

func dummyFrom() *tss.PartyID {
	ids := tss.SortPartyIDs(tss.UnSortedPartyIDs{tss.NewPartyID("a", "a", big.NewInt(7))})
	return ids[0]
}

// ---------------------------------------------------------------- Schnorr / Schnorr-V

type c10Schnorr struct {
	Curve string
	V     bool // Schnorr-V variant
	X, L  H    // witness(es)
	XC    string
	RK    H // for V: R = RK*G
	Sess  B
	SessC string
}

func genC10Schnorr(t *rapid.T) c10Schnorr {
	c := c10Schnorr{Curve: rapid.SampledFrom([]string{"secp256k1", "ed25519"}).Draw(t, "curve"), V: rapid.Bool().Draw(t, "v")}
	cv := getCurve(c.Curve)
	x, cls := boundaryBelow(t, "x", cv.Q)
	if x.Sign() == 0 && (c.Curve == "secp256k1" || c.V) {
		x, cls = big.NewInt(1), "1"
	}
	c.X, c.XC = hx(x), cls
	l, _ := boundaryBelow(t, "l", cv.Q)
	c.L = hx(l)
	rk := drawBelow(t, "rk", add(cv.Q, -1))
	c.RK = hx(add(rk, 1))
	c.Sess, c.SessC = genSession(t)
	return c
}

func runC10Schnorr(c c10Schnorr) ev.Outcome {
	cv := getCurve(c.Curve)
	sys := "schnorr"
	if c.V {
		sys = "schnorr-v"
	}
	out := ev.Outcome{Label: fmt.Sprintf("%s %s x=%s session=%s", sys, c.Curve, c.XC, c.SessC), Nontrivial: c.XC != "rand" || c.SessC != "32bytes"}
	fail := func(sig, f string, a ...interface{}) ev.Outcome {
		out.Err, out.Sig = fmt.Errorf(f, a...), sig
		return out
	}
	sess := sessArg(c.Sess, c.SessC)
	vsess := sessArgOther(c.Sess, c.SessC) // the verifier after the wire round trip gets the same bytes in another spelling
	_ = vsess
	x := c.X.Big()
	if !c.V {
		X := crypto.ScalarBaseMult(cv.EC, x)
		pf, err := schnorr.NewZKProof(sess, x, X, rand.Reader)
		if err != nil {
			return fail("prover-error", "NewZKProof refused a valid witness: %v", err)
		}
		if !pf.Verify(sessArg(c.Sess, c.SessC), X) {
			return fail("verify", "honest Schnorr proof rejected (x class %s)", c.XC)
		}
		if !pf.Verify(sessArg(c.Sess, c.SessC), X) {
			return fail("verify-twice", "the same proof object is rejected when verified a second time")
		}
		// through the wire messages that carry it
		var back *schnorr.ZKProof
		if c.Curve == "secp256k1" {
			m := ecsigning.NewSignRound4Message(dummyFrom(), []*big.Int{one, two, big.NewInt(3)}, pf)
			bz, _, err := m.WireBytes()
			if err != nil {
				return fail("wire", "WireBytes: %v", err)
			}
			pm, err := tss.ParseWireMessage(bz, dummyFrom(), true)
			if err != nil {
				return fail("wire", "ParseWireMessage: %v", err)
			}
			back, err = pm.Content().(*ecsigning.SignRound4Message).UnmarshalZKProof(cv.EC)
			if err != nil {
				return fail("wire", "UnmarshalZKProof: %v", err)
			}
		} else {
			m := edsigning.NewSignRound2Message(dummyFrom(), []*big.Int{one, two, big.NewInt(3)}, pf)
			bz, _, err := m.WireBytes()
			if err != nil {
				return fail("wire", "WireBytes: %v", err)
			}
			pm, err := tss.ParseWireMessage(bz, dummyFrom(), true)
			if err != nil {
				return fail("wire", "ParseWireMessage: %v", err)
			}
			back, err = pm.Content().(*edsigning.SignRound2Message).UnmarshalZKProof(cv.EC)
			if err != nil {
				return fail("wire", "UnmarshalZKProof: %v", err)
			}
		}
		if !back.Verify(vsess, X) {
			return fail("verify-after-wire", "Schnorr proof rejected after the wire round trip")
		}
		if back.T.Cmp(pf.T) != 0 || !back.Alpha.Equals(pf.Alpha) {
			return fail("wire-changed", "Schnorr proof changed through the wire")
		}
		if len(pf.T.Bytes()) < 32 || len(pf.Alpha.X().Bytes()) < 32 || len(pf.Alpha.Y().Bytes()) < 32 {
			out.Label += " enc-lead0"
			out.Nontrivial = true
		}
		return out
	}
	R := crypto.ScalarBaseMult(cv.EC, c.RK.Big())
	l := c.L.Big()
	sR := R.ScalarMult(x)
	var V *crypto.ECPoint
	if l.Sign() == 0 {
		if c.Curve == "secp256k1" {
			l = big.NewInt(1)
		}
	}
	lG := crypto.ScalarBaseMult(cv.EC, l)
	V, err := sR.Add(lG)
	if err != nil {
		out.Skip = true // V is the identity: unrepresentable
		return out
	}
	pf, err := schnorr.NewZKVProof(sess, V, R, x, l, rand.Reader)
	if err != nil {
		return fail("prover-error", "NewZKVProof refused a valid witness: %v", err)
	}
	if !pf.Verify(sessArg(c.Sess, c.SessC), V, R) {
		return fail("verify", "honest Schnorr-V proof rejected")
	}
	if !pf.Verify(sessArg(c.Sess, c.SessC), V, R) {
		return fail("verify-twice", "the same proof object is rejected when verified a second time")
	}
	if c.Curve == "secp256k1" {
		m := ecsigning.NewSignRound6Message(dummyFrom(), []*big.Int{one, two, big.NewInt(3), big.NewInt(4), big.NewInt(5)}, &schnorr.ZKProof{Alpha: pf.Alpha, T: pf.T}, pf)
		bz, _, err := m.WireBytes()
		if err != nil {
			return fail("wire", "WireBytes: %v", err)
		}
		pm, err := tss.ParseWireMessage(bz, dummyFrom(), true)
		if err != nil {
			return fail("wire", "ParseWireMessage: %v", err)
		}
		back, err := pm.Content().(*ecsigning.SignRound6Message).UnmarshalZKVProof(cv.EC)
		if err != nil {
			return fail("wire", "UnmarshalZKVProof: %v", err)
		}
		if !back.Verify(vsess, V, R) {
			return fail("verify-after-wire", "Schnorr-V proof rejected after the wire round trip")
		}
	}
	return out
}

func TestC10Schnorr(t *testing.T) {
	r := ev.New(t, "C10")
	ev.Drive(t, r, genC10Schnorr, runC10Schnorr)
}

// ---------------------------------------------------------------- DLN

type c10DLN struct {
	Set  int
	Dir  string // "h1->h2" (alpha) | "h2->h1" (beta) | "fresh"
	X    H      // fresh witness
	XC   string
	Wire string // "serialize" | "message"
	// Short: the proof is searched (seeded prover randomness, 512-bit parameters) so that its Fiat-Shamir challenge
	// digest has a leading zero byte (1 proof in 256 by chance)
	Short     bool `json:",omitempty"`
	ShortSeed int  `json:",omitempty"`
}

func genC10DLN(t *rapid.T) c10DLN {
	c := c10DLN{Set: rapid.IntRange(0, 4).Draw(t, "set"), Dir: rapid.SampledFrom([]string{"h1->h2", "h2->h1", "fresh"}).Draw(t, "dir"),
		Wire: rapid.SampledFrom([]string{"serialize", "message"}).Draw(t, "wire")}
	pp := preParams()[c.Set]
	pq := mul(pp.P, pp.Q)
	x, cls := boundaryBelow(t, "x", pq)
	if x.Cmp(two) < 0 {
		x, cls = big.NewInt(2), "2"
	}
	c.X, c.XC = hx(x), cls
	c.Short = c.Dir != "fresh" && c.Wire == "serialize" && rapid.IntRange(0, 2).Draw(t, "short") == 0
	c.ShortSeed = rapid.IntRange(0, 1<<20).Draw(t, "shortSeed")
	return c
}

func runC10DLN(c c10DLN) ev.Outcome {
	pp := preParams()[c.Set]
	if c.Short {
		pp = weakPreParams(512)
	}
	out := ev.Outcome{Label: fmt.Sprintf("dln set=%d dir=%s wire=%s", c.Set, c.Dir, c.Wire), Nontrivial: true}
	fail := func(sig, f string, a ...interface{}) ev.Outcome {
		out.Err, out.Sig = fmt.Errorf(f, a...), sig
		return out
	}
	var h1, h2, x *big.Int
	switch c.Dir {
	case "h1->h2":
		h1, h2, x = pp.H1i, pp.H2i, pp.Alpha
	case "h2->h1":
		h1, h2, x = pp.H2i, pp.H1i, pp.Beta
	default:
		h1, x = pp.H1i, c.X.Big()
		h2 = new(big.Int).Exp(h1, x, pp.NTildei)
		out.Label += " x=" + c.XC
		if h2.Cmp(one) == 0 || h2.Cmp(h1) == 0 {
			out.Skip = true
			return out
		}
	}
	pf := dlnproof.NewDLNProof(h1, h2, x, pp.P, pp.Q, pp.NTildei, rand.Reader)
	if c.Short {
		found := false
		for i := 0; i < 4000 && !found; i++ {
			pf = dlnproof.NewDLNProof(h1, h2, x, pp.P, pp.Q, pp.NTildei, newDRBG(fmt.Sprintf("c10-dln-short/%d/%d", c.ShortSeed, i)))
			ch := common.SHA512_256i(append([]*big.Int{h1, h2, pp.NTildei}, pf.Alpha[:]...)...) // the challenge as the library derives it
			found = ch.BitLen() <= 248
		}
		if found {
			out.Label += " challenge<32B"
		}
	}
	if !pf.Verify(h1, h2, pp.NTildei) {
		return fail("verify", "honest DLN proof rejected")
	}
	if !pf.Verify(h1, h2, pp.NTildei) {
		return fail("verify-twice", "the same proof object is rejected when verified a second time")
	}
	if !pf.Verify(h1, h2, pp.NTildei) {
		return fail("verify-twice", "the same DLN proof object is rejected when verified a second time")
	}
	var back *dlnproof.Proof
	var err error
	if c.Wire == "serialize" {
		bzs, e := pf.Serialize()
		if e != nil {
			return fail("wire", "Serialize: %v", e)
		}
		back, err = dlnproof.UnmarshalDLNProof(bzs)
		if err == nil {
			re, _ := back.Serialize()
			if fmt.Sprintf("%x", re) != fmt.Sprintf("%x", bzs) {
				return fail("wire-changed", "re-encoding the parsed DLN proof gives other bytes")
			}
		}
	} else {
		m, e := eckeygen.NewKGRound1Message(dummyFrom(), big.NewInt(99), &pp.PaillierSK.PublicKey, pp.NTildei, pp.H1i, pp.H2i, pf, pf)
		if e != nil {
			return fail("wire", "NewKGRound1Message: %v", e)
		}
		bz, _, e := m.WireBytes()
		if e != nil {
			return fail("wire", "WireBytes: %v", e)
		}
		pm, e := tss.ParseWireMessage(bz, dummyFrom(), true)
		if e != nil {
			return fail("wire", "ParseWireMessage: %v", e)
		}
		if !pm.ValidateBasic() {
			return fail("wire", "round-1 message carrying an honest DLN proof fails ValidateBasic")
		}
		back, err = pm.Content().(*eckeygen.KGRound1Message).UnmarshalDLNProof2()
	}
	if err != nil {
		return fail("wire", "DLN proof does not parse back: %v", err)
	}
	if !back.Verify(h1, h2, pp.NTildei) {
		return fail("verify-after-wire", "DLN proof rejected after the wire round trip")
	}
	return out
}

func TestC10DLN(t *testing.T) {
	r := ev.New(t, "C10")
	ev.Drive(t, r, genC10DLN, runC10DLN)
}

// ---------------------------------------------------------------- Paillier key proof, mod proof, fac proof

type c10Key struct {
	Sys   string // paillier | mod | fac
	Set   int    // prover's Paillier key
	VSet  int    // verifier's ring-Pedersen set (fac)
	Curve string
	K     H // party key (paillier proof)
	PubK  H
	Sess  B
	SessC string
}

func genC10Key(t *rapid.T) c10Key {
	c := c10Key{Sys: rapid.SampledFrom([]string{"paillier", "mod", "fac", "fac"}).Draw(t, "sys"), Set: rapid.IntRange(0, 4).Draw(t, "set"), VSet: rapid.IntRange(0, 4).Draw(t, "vset"),
		Curve: rapid.SampledFrom([]string{"secp256k1", "ed25519"}).Draw(t, "curve")}
	k, _ := boundaryBelow(t, "k", new(big.Int).Lsh(one, 300))
	c.K = hx(k)
	c.PubK = hx(add(drawBelow(t, "pk", add(getCurve("secp256k1").Q, -1)), 1))
	c.Sess, c.SessC = genSession(t)
	return c
}

func runC10Key(c c10Key) (out ev.Outcome) {
	pp := preParams()[c.Set]
	vp := preParams()[c.VSet]
	var watch bigWatch // the shared parameters are read by many verifications (in the protocols: concurrently)
	defer func() { watch.finish(&out, "proof verification") }()
	watch.add("prover-params", pp.PaillierSK.N, pp.NTildei, pp.H1i, pp.H2i)
	watch.add("verifier-params", vp.NTildei, vp.H1i, vp.H2i)
	out = ev.Outcome{Label: fmt.Sprintf("%s set=%d", c.Sys, c.Set), Nontrivial: true}
	fail := func(sig, f string, a ...interface{}) ev.Outcome {
		out.Err, out.Sig = fmt.Errorf(f, a...), sig
		return out
	}
	sess := sessArg(c.Sess, c.SessC)
	vsess := sessArgOther(c.Sess, c.SessC) // the verifier after the wire round trip gets the same bytes in another spelling
	_ = vsess
	switch c.Sys {
	case "paillier":
		pub := crypto.ScalarBaseMult(tss.S256(), c.PubK.Big())
		k := c.K.Big()
		pf := pp.PaillierSK.Proof(k, pub)
		var before [len(pf)]*big.Int
		for i := range pf {
			before[i] = new(big.Int).Set(pf[i])
		}
		ok, err := pf.Verify(pp.PaillierSK.N, k, pub)
		if err != nil || !ok {
			return fail("verify", "honest Paillier key proof rejected: ok=%v err=%v", ok, err)
		}
		for i := range pf {
			if pf[i].Cmp(before[i]) != 0 {
				return fail("operand-modified", "Verify changed element %d of the proof it was given", i)
			}
		}
		if ok2, err2 := pf.Verify(pp.PaillierSK.N, k, pub); err2 != nil || !ok2 {
			return fail("verify-twice", "the same Paillier key proof object is rejected when verified a second time: ok=%v err=%v", ok2, err2)
		}
		m := eckeygen.NewKGRound3Message(dummyFrom(), pf)
		bz, _, err := m.WireBytes()
		if err != nil {
			return fail("wire", "WireBytes: %v", err)
		}
		pm, err := tss.ParseWireMessage(bz, dummyFrom(), true)
		if err != nil || !pm.ValidateBasic() {
			return fail("wire", "round-3 message does not parse/validate: %v", err)
		}
		back := pm.Content().(*eckeygen.KGRound3Message).UnmarshalProofInts()
		ok, err = back.Verify(pp.PaillierSK.N, k, pub)
		if err != nil || !ok {
			return fail("verify-after-wire", "Paillier key proof rejected after the wire round trip")
		}
	case "mod":
		out.Label += " session=" + c.SessC
		pf, err := modproof.NewProof(sess, pp.PaillierSK.N, pp.PaillierSK.P, pp.PaillierSK.Q, rand.Reader)
		if err != nil {
			return fail("prover-error", "modproof.NewProof: %v", err)
		}
		if !pf.Verify(sessArg(c.Sess, c.SessC), pp.PaillierSK.N) {
			return fail("verify", "honest mod proof rejected")
		}
		if !pf.Verify(sessArg(c.Sess, c.SessC), pp.PaillierSK.N) {
			return fail("verify-twice", "the same proof object is rejected when verified a second time")
		}
		bzs := pf.Bytes()
		back, err := modproof.NewProofFromBytes(bzs[:])
		if err != nil {
			return fail("wire", "mod proof does not parse back: %v", err)
		}
		if !back.Verify(vsess, pp.PaillierSK.N) {
			return fail("verify-after-wire", "mod proof rejected after the wire round trip")
		}
		re := back.Bytes()
		if fmt.Sprintf("%x", re) != fmt.Sprintf("%x", bzs) {
			return fail("wire-changed", "re-encoding the parsed mod proof gives other bytes")
		}
	case "fac":
		cv := getCurve(c.Curve)
		out.Label += fmt.Sprintf(" verifier-set=%d curve=%s session=%s", c.VSet, c.Curve, c.SessC)
		pf, err := facproof.NewProof(sess, cv.EC, pp.PaillierSK.N, vp.NTildei, vp.H1i, vp.H2i, pp.PaillierSK.P, pp.PaillierSK.Q, rand.Reader)
		if err != nil {
			return fail("prover-error", "facproof.NewProof: %v", err)
		}
		if !pf.Verify(sessArg(c.Sess, c.SessC), cv.EC, pp.PaillierSK.N, vp.NTildei, vp.H1i, vp.H2i) {
			return fail("verify", "honest fac proof rejected")
		}
		if !pf.Verify(sessArg(c.Sess, c.SessC), cv.EC, pp.PaillierSK.N, vp.NTildei, vp.H1i, vp.H2i) {
			return fail("verify-twice", "the same proof object is rejected when verified a second time")
		}
		bzs := pf.Bytes()
		back, err := facproof.NewProofFromBytes(bzs[:])
		if err != nil {
			return fail("wire", "fac proof does not parse back: %v", err)
		}
		if !back.Verify(vsess, cv.EC, pp.PaillierSK.N, vp.NTildei, vp.H1i, vp.H2i) {
			return fail("verify-after-wire", "fac proof rejected after the wire round trip")
		}
		// and swapped factor order (the prover may be given Q,P)
		pf2, err := facproof.NewProof(sess, cv.EC, pp.PaillierSK.N, vp.NTildei, vp.H1i, vp.H2i, pp.PaillierSK.Q, pp.PaillierSK.P, rand.Reader)
		if err != nil || !pf2.Verify(sessArg(c.Sess, c.SessC), cv.EC, pp.PaillierSK.N, vp.NTildei, vp.H1i, vp.H2i) {
			return fail("verify", "honest fac proof (factors swapped) rejected")
		}
	}
	return out
}

func TestC10KeyProofs(t *testing.T) {
	r := ev.New(t, "C10")
	ev.Drive(t, r, genC10Key, runC10Key)
}

// ---------------------------------------------------------------- MtA proofs: Alice range, Bob, Bob-WC

type c10MtA struct {
	Sys   string // range | bob | bobwc
	Curve string
	ASet  int // Alice's Paillier key
	VSet  int // verifier's ring-Pedersen parameters
	M     H   // Alice's plaintext / c1 plaintext
	MC    string
	X     H // Bob's multiplier
	XC    string
	Y     H // Bob's mask < q^5
	YC    string
	Sess  B
	SessC string
}

func genC10MtA(t *rapid.T) c10MtA {
	c := c10MtA{Sys: rapid.SampledFrom([]string{"range", "bob", "bobwc"}).Draw(t, "sys"), Curve: rapid.SampledFrom([]string{"secp256k1", "secp256k1", "ed25519"}).Draw(t, "curve"),
		ASet: rapid.IntRange(0, 4).Draw(t, "aset"), VSet: rapid.IntRange(0, 4).Draw(t, "vset")}
	cv := getCurve(c.Curve)
	m, mc := boundaryBelow(t, "m", cv.Q)
	c.M, c.MC = hx(m), mc
	x, xc := boundaryBelow(t, "x", cv.Q)
	if x.Sign() == 0 && c.Sys == "bobwc" && c.Curve == "secp256k1" {
		x, xc = big.NewInt(1), "1"
	}
	c.X, c.XC = hx(x), xc
	y, yc := boundaryBelow(t, "y", pow(cv.Q, 5))
	c.Y, c.YC = hx(y), yc
	c.Sess, c.SessC = genSession(t)
	return c
}

func runC10MtA(c c10MtA) (out ev.Outcome) {
	cv := getCurve(c.Curve)
	ap, vp := preParams()[c.ASet], preParams()[c.VSet]
	pk := &ap.PaillierSK.PublicKey
	out = ev.Outcome{Nontrivial: true}
	var watch bigWatch
	defer func() { watch.finish(&out, "proof verification") }()
	watch.add("N", pk.N)
	watch.add("verifier-params", vp.NTildei, vp.H1i, vp.H2i)
	fail := func(sig, f string, a ...interface{}) ev.Outcome {
		out.Err, out.Sig = fmt.Errorf(f, a...), sig
		return out
	}
	pairC := "diag"
	if c.ASet != c.VSet {
		pairC = "offdiag"
	}
	sess := sessArg(c.Sess, c.SessC)
	vsess := sessArgOther(c.Sess, c.SessC) // the verifier after the wire round trip gets the same bytes in another spelling
	_ = vsess
	m := c.M.Big()
	cA, rA, err := pk.EncryptAndReturnRandomness(rand.Reader, m)
	if err != nil {
		panic("harness: " + err.Error())
	}
	switch c.Sys {
	case "range":
		out.Label = fmt.Sprintf("range %s pair=%s m=%s", c.Curve, pairC, c.MC)
		pf, err := mta.ProveRangeAlice(cv.EC, pk, cA, vp.NTildei, vp.H1i, vp.H2i, m, rA, rand.Reader)
		if err != nil {
			return fail("prover-error", "ProveRangeAlice: %v", err)
		}
		if !pf.Verify(cv.EC, pk, vp.NTildei, vp.H1i, vp.H2i, cA) {
			return fail("verify", "honest range proof rejected (m class %s)", c.MC)
		}
		if !pf.Verify(cv.EC, pk, vp.NTildei, vp.H1i, vp.H2i, cA) {
			return fail("verify-twice", "the same proof object is rejected when verified a second time")
		}
		bzs := pf.Bytes()
		back, err := mta.RangeProofAliceFromBytes(bzs[:])
		if err != nil {
			return fail("wire", "range proof does not parse back: %v", err)
		}
		if !back.Verify(cv.EC, pk, vp.NTildei, vp.H1i, vp.H2i, cA) {
			return fail("verify-after-wire", "range proof rejected after the wire round trip")
		}
		// through the signing message
		msg := ecsigning.NewSignRound1Message1(dummyFrom(), dummyFrom(), cA, pf)
		bz, _, _ := msg.WireBytes()
		pm, err := tss.ParseWireMessage(bz, dummyFrom(), false)
		if err != nil || !pm.ValidateBasic() {
			return fail("wire", "SignRound1Message1 does not parse/validate: %v", err)
		}
		b2, err := pm.Content().(*ecsigning.SignRound1Message1).UnmarshalRangeProofAlice()
		if err != nil || !b2.Verify(cv.EC, pk, vp.NTildei, vp.H1i, vp.H2i, pm.Content().(*ecsigning.SignRound1Message1).UnmarshalC()) {
			return fail("verify-after-wire", "range proof rejected after the message round trip: %v", err)
		}
	default:
		x, y := c.X.Big(), c.Y.Big()
		out.Label = fmt.Sprintf("%s %s pair=%s x=%s y=%s session=%s", c.Sys, c.Curve, pairC, c.XC, c.YC, c.SessC)
		cY, r, err := pk.EncryptAndReturnRandomness(rand.Reader, y)
		if err != nil {
			panic("harness: " + err.Error())
		}
		c2, err := pk.HomoMult(x, cA)
		if err != nil {
			panic("harness: " + err.Error())
		}
		c2, err = pk.HomoAdd(c2, cY)
		if err != nil {
			panic("harness: " + err.Error())
		}
		if c.Sys == "bob" {
			pf, err := mta.ProveBob(sess, cv.EC, pk, vp.NTildei, vp.H1i, vp.H2i, cA, c2, x, y, r, rand.Reader)
			if err != nil {
				return fail("prover-error", "ProveBob: %v", err)
			}
			if !pf.Verify(sessArg(c.Sess, c.SessC), cv.EC, pk, vp.NTildei, vp.H1i, vp.H2i, cA, c2) {
				return fail("verify", "honest Bob proof rejected (x %s, y %s)", c.XC, c.YC)
			}
			if !pf.Verify(sessArg(c.Sess, c.SessC), cv.EC, pk, vp.NTildei, vp.H1i, vp.H2i, cA, c2) {
				return fail("verify-twice", "the same proof object is rejected when verified a second time")
			}
			bzs := pf.Bytes()
			back, err := mta.ProofBobFromBytes(bzs[:])
			if err != nil || !back.Verify(vsess, cv.EC, pk, vp.NTildei, vp.H1i, vp.H2i, cA, c2) {
				return fail("verify-after-wire", "Bob proof rejected after the wire round trip: %v", err)
			}
		} else {
			X := crypto.ScalarBaseMult(cv.EC, x)
			pf, err := mta.ProveBobWC(sess, cv.EC, pk, vp.NTildei, vp.H1i, vp.H2i, cA, c2, x, y, r, X, rand.Reader)
			if err != nil {
				return fail("prover-error", "ProveBobWC: %v", err)
			}
			if !pf.Verify(sessArg(c.Sess, c.SessC), cv.EC, pk, vp.NTildei, vp.H1i, vp.H2i, cA, c2, X) {
				return fail("verify", "honest Bob-WC proof rejected (x %s, y %s)", c.XC, c.YC)
			}
			if !pf.Verify(sessArg(c.Sess, c.SessC), cv.EC, pk, vp.NTildei, vp.H1i, vp.H2i, cA, c2, X) {
				return fail("verify-twice", "the same proof object is rejected when verified a second time")
			}
			bzs := pf.Bytes()
			back, err := mta.ProofBobWCFromBytes(cv.EC, bzs[:])
			if err != nil || !back.Verify(vsess, cv.EC, pk, vp.NTildei, vp.H1i, vp.H2i, cA, c2, X) {
				return fail("verify-after-wire", "Bob-WC proof rejected after the wire round trip: %v", err)
			}
		}
	}
	return out
}

func TestC10MtA(t *testing.T) {
	r := ev.New(t, "C10")
	ev.Drive(t, r, genC10MtA, runC10MtA)
}

var _ = common.ModInt
var _ = paillier.ProofIters

// ---------------------------------------------------------------- session buffers reused across calls
//
// A caller may keep one scratch buffer for "ssid || index" and rewrite it in place between proofs (that is
// what append(ssid, idx...) does when ssid has spare capacity). A proof must depend on the bytes of the
// session at the time of the call only: several proofs made back-to-back from one rewritten buffer, then
// each verified under a fresh copy of its own session.

type c10Reuse struct {
	Curve    string
	Sys      []string // per step: schnorr | schnorr-v | fac | mod
	Sessions []B      // same length each
	VerifyAt []bool   // verify right after proving (true) or only at the end (false)
	Set      int
}

func genC10Reuse(t *rapid.T) c10Reuse {
	c := c10Reuse{Curve: rapid.SampledFrom([]string{"secp256k1", "ed25519"}).Draw(t, "curve"), Set: rapid.IntRange(0, 4).Draw(t, "set")}
	n := rapid.IntRange(2, 4).Draw(t, "steps")
	l := rapid.SampledFrom([]int{1, 31, 32, 33, 64}).Draw(t, "len")
	for i := 0; i < n; i++ {
		c.Sys = append(c.Sys, rapid.SampledFrom([]string{"schnorr", "schnorr", "schnorr-v", "fac", "mod"}).Draw(t, "sys"))
		c.Sessions = append(c.Sessions, bx(drawBytes(t, "sess", l, l)))
		c.VerifyAt = append(c.VerifyAt, rapid.IntRange(0, 3).Draw(t, "verifyNow") == 0)
	}
	return c
}

func runC10Reuse(c c10Reuse) ev.Outcome {
	cv := getCurve(c.Curve)
	out := ev.Outcome{Label: fmt.Sprintf("session-buffer-reuse %s steps=%v verify-between=%v", c.Curve, c.Sys, c.VerifyAt), Nontrivial: true}
	fail := func(sig, f string, a ...interface{}) ev.Outcome {
		out.Err, out.Sig = fmt.Errorf(f, a...), sig
		return out
	}
	pp := preParams()[c.Set]
	vp := preParams()[(c.Set+1)%5]
	buf := make([]byte, len(c.Sessions[0].Bytes()), len(c.Sessions[0].Bytes())+8)
	var verifiers []func() bool
	for i, sys := range c.Sys {
		copy(buf, c.Sessions[i].Bytes()) // rewritten in place
		own := c.Sessions[i].Bytes()     // what the verifier will use: a fresh copy of this step's session
		var v func() bool
		switch sys {
		case "schnorr":
			x := add(randBelow(add(cv.Q, -1)), 1)
			X := crypto.ScalarBaseMult(cv.EC, x)
			pf, err := schnorr.NewZKProof(buf, x, X, rand.Reader)
			if err != nil {
				return fail("prover-error", "NewZKProof: %v", err)
			}
			v = func() bool { return pf.Verify(own, X) }
		case "schnorr-v":
			x, l := add(randBelow(add(cv.Q, -1)), 1), add(randBelow(add(cv.Q, -1)), 1)
			R := crypto.ScalarBaseMult(cv.EC, add(randBelow(add(cv.Q, -1)), 1))
			V, err := R.ScalarMult(x).Add(crypto.ScalarBaseMult(cv.EC, l))
			if err != nil {
				out.Skip = true
				return out
			}
			pf, err := schnorr.NewZKVProof(buf, V, R, x, l, rand.Reader)
			if err != nil {
				return fail("prover-error", "NewZKVProof: %v", err)
			}
			v = func() bool { return pf.Verify(own, V, R) }
		case "fac":
			pf, err := facproof.NewProof(buf, cv.EC, pp.PaillierSK.N, vp.NTildei, vp.H1i, vp.H2i, pp.PaillierSK.P, pp.PaillierSK.Q, rand.Reader)
			if err != nil {
				return fail("prover-error", "facproof.NewProof: %v", err)
			}
			v = func() bool { return pf.Verify(own, cv.EC, pp.PaillierSK.N, vp.NTildei, vp.H1i, vp.H2i) }
		default:
			pf, err := modproof.NewProof(buf, pp.PaillierSK.N, pp.PaillierSK.P, pp.PaillierSK.Q, rand.Reader)
			if err != nil {
				return fail("prover-error", "modproof.NewProof: %v", err)
			}
			v = func() bool { return pf.Verify(own, pp.PaillierSK.N) }
		}
		if c.VerifyAt[i] {
			if !v() {
				return fail("reuse-verify", "step %d (%s): honest proof made from a rewritten session buffer rejected under its own session (steps %v)", i, sys, c.Sys)
			}
		}
		verifiers = append(verifiers, v)
	}
	for i, v := range verifiers {
		if !v() {
			return fail("reuse-verify", "step %d (%s): honest proof made from a rewritten session buffer rejected under its own session at the end (steps %v, verified in between %v)", i, c.Sys[i], c.Sys, c.VerifyAt)
		}
	}
	return out
}

func TestC10SessionBufferReuse(t *testing.T) {
	r := ev.New(t, "C10")
	ev.Drive(t, r, genC10Reuse, runC10Reuse)
}

package props

// C11 — Verifiers reject proofs of false statements and out-of-range secrets.

import (
	"crypto/rand"
	"fmt"
	"math/big"
	"sync"
	"testing"
	"time"

	"github.com/bnb-chain/tss-lib/v2/crypto"
	"github.com/bnb-chain/tss-lib/v2/crypto/dlnproof"
	"github.com/bnb-chain/tss-lib/v2/crypto/facproof"
	"github.com/bnb-chain/tss-lib/v2/crypto/modproof"
	"github.com/bnb-chain/tss-lib/v2/crypto/mta"
	"github.com/bnb-chain/tss-lib/v2/crypto/paillier"
	"github.com/bnb-chain/tss-lib/v2/crypto/schnorr"
	"github.com/bnb-chain/tss-lib/v2/tss"
	"pgregory.net/rapid"

	"verif/harness/ev"
)

// withDeadline runs f; ok=false if it did not return in time (suspected hang).
func withDeadline(d time.Duration, f func()) (ok bool, panicked interface{}) {
	done := make(chan interface{}, 1)
	go func() {
		defer func() { done <- recover() }()
		f()
	}()
	select {
	case p := <-done:
		return true, p
	case <-time.After(d):
		return false, nil
	}
}

type c11Case struct {
	Family string
	Curve  string
	Set    int
	VSet   int
	Size   string // violation size class
	A, B   H      // raw draws
	Sess   B
	Salt   int
}

var c11Families = []string{
	"schnorr-wrong-dlog", "schnorrv-wrong-witness",
	"dln-not-in-group", "dln-wrong-exponent",
	"paillier-gcd", "paillier-small-factor", "paillier-wrong-key",
	"mod-prime", "mod-even", "mod-square", "mod-three-factors", "mod-p1mod4",
	"fac-small-factor",
	"range-big-plaintext", "range-big-mask",
	"bob-big-multiplier", "bob-big-mask", "bobwc-wrong-point", "bob-big-alpha", "bob-big-gamma",
	"fac-big-mask",
	"paillier-domain",
}

func genC11(t *rapid.T) c11Case {
	c := c11Case{Family: rapid.SampledFrom(c11Families).Draw(t, "family"), Curve: rapid.SampledFrom([]string{"secp256k1", "secp256k1", "ed25519"}).Draw(t, "curve"),
		Set: rapid.IntRange(0, 4).Draw(t, "set"), VSet: rapid.IntRange(0, 4).Draw(t, "vset"),
		Size: rapid.SampledFrom([]string{"+1", "x2", "x2^16", "x2^64", "x2^200", "max"}).Draw(t, "size"), Salt: rapid.IntRange(0, 1<<20).Draw(t, "salt")}
	c.A = hx(drawBigBits(t, "a", 512))
	c.B = hx(drawBigBits(t, "b", 512))
	c.Sess, _ = genSession(t)
	return c
}

// grow returns a value beyond `bound` by the case's violation size class (never beyond `max` if max != nil).
func grow(bound *big.Int, size string, raw, max *big.Int) *big.Int {
	var v *big.Int
	switch size {
	case "+1":
		v = add(bound, 1)
	case "x2":
		v = new(big.Int).Lsh(bound, 1)
	case "x2^16":
		v = new(big.Int).Lsh(bound, 16)
	case "x2^64":
		v = new(big.Int).Lsh(bound, 64)
	case "x2^200":
		v = new(big.Int).Lsh(bound, 200)
	default:
		if max != nil {
			return add(max, -1)
		}
		v = new(big.Int).Lsh(bound, 400)
	}
	v.Add(v, new(big.Int).Mod(raw, bound))
	if max != nil && v.Cmp(max) >= 0 {
		v = add(max, -1-int64(raw.Bit(0)))
	}
	return v
}

// bad moduli, generated once per process
var (
	badMu   sync.Mutex
	badMods = map[string][3]*big.Int{} // name -> N, P, Q
)

func prime(bits int) *big.Int {
	p, err := rand.Prime(rand.Reader, bits)
	if err != nil {
		panic(err)
	}
	return p
}

func primeMod4(bits int, want int64) *big.Int {
	for {
		p := prime(bits)
		if new(big.Int).Mod(p, big.NewInt(4)).Int64() == want {
			return p
		}
	}
}

func badModulus(name string) (N, P, Q *big.Int) {
	badMu.Lock()
	defer badMu.Unlock()
	if v, ok := badMods[name]; ok {
		return v[0], v[1], v[2]
	}
	switch name {
	case "gcd": // N = p*q with q = 1 mod p, exactly 512 bits (so that the challenge sampler terminates)
		for {
			P = prime(128)
			for i := 0; i < 2000; i++ {
				k := new(big.Int).Lsh(one, 255)
				k.Add(k, randBelow(new(big.Int).Lsh(one, 255)))
				Q = add(mul(k, P), 1)
				if Q.ProbablyPrime(20) && mul(P, Q).BitLen() == 512 {
					break
				}
				Q = nil
			}
			if Q != nil {
				break
			}
		}
	case "small-factor": // divisible by a prime < 1000, 512 bits
		P = big.NewInt(997)
		for {
			Q = prime(502)
			if mul(P, Q).BitLen() == 512 {
				break
			}
		}
	case "good512": // a proper Blum-like 512-bit modulus (control)
		P, Q = primeMod4(256, 3), primeMod4(256, 3)
		for mul(P, Q).BitLen() != 512 || new(big.Int).GCD(nil, nil, mul(P, Q), mul(add(P, -1), add(Q, -1))).Cmp(one) != 0 {
			Q = primeMod4(256, 3)
		}
	case "prime":
		P, Q = prime(512), big.NewInt(1)
	case "even":
		P, Q = big.NewInt(2), prime(511)
	case "square":
		P = primeMod4(256, 3)
		Q = P
	case "three":
		P = primeMod4(170, 3)
		Q = mul(primeMod4(171, 3), primeMod4(171, 3))
	case "p1mod4":
		P, Q = primeMod4(256, 1), primeMod4(256, 3)
	}
	N = mul(P, Q)
	badMods[name] = [3]*big.Int{N, P, Q}
	return
}

func runC11(c c11Case) ev.Outcome {
	cv := getCurve(c.Curve)
	q := cv.Q
	pp, vp := preParams()[c.Set], preParams()[c.VSet]
	pk := &pp.PaillierSK.PublicKey
	N := pk.N
	sess := c.Sess.Bytes()
	out := ev.Outcome{Label: fmt.Sprintf("%s size=%s", c.Family, c.Size), Nontrivial: true}
	accepted := func(what string) ev.Outcome {
		out.Err = fmt.Errorf("%s: verifier ACCEPTED a proof of a false statement / out-of-range secret (%s)", c.Family, what)
		out.Sig = "accepted:" + c.Family
		return out
	}
	skip := func(why string) ev.Outcome { // generator could not produce a calibrated transcript
		out.Label = "uncalibrated " + c.Family + ": " + why
		out.Nontrivial = false
		return out
	}
	raw, raw2 := c.A.Big(), c.B.Big()
	switch c.Family {
	case "schnorr-wrong-dlog":
		out.Label = fmt.Sprintf("%s %s", c.Family, c.Curve)
		x := add(new(big.Int).Mod(raw, add(q, -3)), 2)
		X := crypto.ScalarBaseMult(cv.EC, x)
		for _, d := range []*big.Int{one, add(q, -1), new(big.Int).Mod(raw2, q)} {
			xb := new(big.Int).Mod(new(big.Int).Add(x, d), q)
			if xb.Cmp(x) == 0 || xb.Sign() == 0 {
				continue
			}
			pf, err := schnorr.NewZKProof(sess, xb, X, rand.Reader)
			if err == nil && pf.Verify(sess, X) {
				return accepted("x+d for X=x*G")
			}
		}
		// proof for another point
		pf, _ := schnorr.NewZKProof(sess, x, X, rand.Reader)
		X2 := crypto.ScalarBaseMult(cv.EC, add(x, 1))
		if pf.Verify(sess, X2) {
			return accepted("proof for X checked against X+G")
		}
	case "schnorrv-wrong-witness":
		out.Label = fmt.Sprintf("%s %s", c.Family, c.Curve)
		s := add(new(big.Int).Mod(raw, add(q, -3)), 2)
		l := add(new(big.Int).Mod(raw2, add(q, -3)), 2)
		R := crypto.ScalarBaseMult(cv.EC, big.NewInt(int64(c.Salt+2)))
		V, err := R.ScalarMult(s).Add(crypto.ScalarBaseMult(cv.EC, l))
		if err != nil {
			return skip("V is the identity")
		}
		for _, w := range [][2]*big.Int{{add(s, 1), l}, {s, add(l, 1)}, {l, s}} {
			pf, err := schnorr.NewZKVProof(sess, V, R, w[0], w[1], rand.Reader)
			if err == nil && pf.Verify(sess, V, R) {
				return accepted("wrong (s,l) for V = s*R + l*G")
			}
		}
	case "dln-not-in-group", "dln-wrong-exponent":
		out.Label = fmt.Sprintf("%s set=%d", c.Family, c.Set)
		NT := pp.NTildei
		var h2 *big.Int
		x := pp.Alpha
		switch {
		case c.Family == "dln-wrong-exponent":
			h2 = pp.H2i
			x = add(pp.Alpha, 1)
		case c.Salt%3 == 0:
			h2 = new(big.Int).Sub(NT, pp.H2i) // -h1^x: not a square, hence outside <h1>
		case c.Salt%3 == 1:
			h2 = new(big.Int).Mod(raw, NT) // a random element (in <h1> with probability ~1/4 only if a QR; alpha unknown anyway)
			if h2.Cmp(two) < 0 {
				h2 = big.NewInt(5)
			}
		default:
			h2 = new(big.Int).Mod(vp.H2i, NT) // an element belonging to another modulus
			if c.Set == c.VSet {
				h2 = new(big.Int).Sub(NT, pp.H2i)
			}
		}
		pf := dlnproof.NewDLNProof(pp.H1i, h2, x, pp.P, pp.Q, NT, rand.Reader)
		if pf.Verify(pp.H1i, h2, NT) {
			return accepted("DLN proof with a wrong exponent / h2 outside the group")
		}
	case "paillier-gcd", "paillier-small-factor":
		name := "gcd"
		if c.Family == "paillier-small-factor" {
			name = "small-factor"
		}
		Nb, _, _ := badModulus(name)
		pub := crypto.ScalarBaseMult(tss.S256(), add(new(big.Int).Mod(raw, add(getCurve("secp256k1").Q, -2)), 1))
		k := new(big.Int).Mod(raw2, new(big.Int).Lsh(one, 256))
		// the honest prover cannot run (N has no inverse mod phi): cheating strategies
		var xs []*big.Int
		okT, _ := withDeadline(60*time.Second, func() { xs = paillier.GenerateXs(paillier.ProofIters, k, Nb, pub) })
		if !okT {
			return skip("challenge sampler did not terminate for this modulus (known finding F8 family)")
		}
		strategies := map[string]func(i int) *big.Int{
			"random":   func(i int) *big.Int { return randBelow(Nb) },
			"identity": func(i int) *big.Int { return new(big.Int).Mod(xs[i], Nb) },
			"one":      func(i int) *big.Int { return big.NewInt(1) },
		}
		for nm, st := range strategies {
			var pf paillier.Proof
			for i := range pf {
				pf[i] = st(i)
			}
			var ok bool
			okT, _ := withDeadline(60*time.Second, func() { ok, _ = pf.Verify(Nb, k, pub) })
			if okT && ok {
				return accepted("cheating strategy " + nm + " on a modulus with " + name)
			}
		}
	case "paillier-wrong-key":
		// proof made with another party's key / for another party id
		out.Label = fmt.Sprintf("%s set=%d vset=%d", c.Family, c.Set, c.VSet)
		pub := crypto.ScalarBaseMult(tss.S256(), add(new(big.Int).Mod(raw, add(getCurve("secp256k1").Q, -2)), 1))
		k := new(big.Int).Mod(raw2, new(big.Int).Lsh(one, 256))
		pf := pp.PaillierSK.Proof(k, pub)
		other := vp.PaillierSK.N
		if c.Set == c.VSet {
			other = add(N, 2)
		}
		if ok, _ := pf.Verify(other, k, pub); ok {
			return accepted("Paillier key proof verified against another modulus")
		}
	case "mod-prime", "mod-even", "mod-square", "mod-three-factors", "mod-p1mod4":
		name := map[string]string{"mod-prime": "prime", "mod-even": "even", "mod-square": "square", "mod-three-factors": "three", "mod-p1mod4": "p1mod4"}[c.Family]
		Nb, Pb, Qb := badModulus(name)
		// calibration: the same procedure on a proper 512-bit modulus is accepted
		Ng, Pg, Qg := badModulus("good512")
		good, err := modproof.NewProof(sess, Ng, Pg, Qg, rand.Reader)
		if err != nil || !good.Verify(sess, Ng) {
			return skip("control proof on a proper 512-bit modulus not accepted")
		}
		var pf *modproof.ProofMod
		canProve := name == "three" || name == "p1mod4" // elsewhere the prover's own sampling cannot terminate / divides by zero
		var p interface{} = "not run"
		if canProve {
			p = mustNoPanic(func() { pf, err = modproof.NewProof(sess, Nb, Pb, Qb, rand.Reader) })
		}
		if p != nil || err != nil || pf == nil {
			// the prover cannot run on this modulus: replay a valid proof made for another modulus, reduced into range
			pf = good
			for i := range pf.X {
				pf.X[i] = add(new(big.Int).Mod(pf.X[i], add(Nb, -1)), 1)
				pf.Z[i] = add(new(big.Int).Mod(pf.Z[i], add(Nb, -1)), 1)
			}
			pf.W = add(new(big.Int).Mod(pf.W, add(Nb, -1)), 1)
			out.Label += " (replayed transcript)"
		} else {
			for i := range pf.X { // the prover leaves gaps where no root exists: fill them so that parsing-level checks pass
				if pf.X[i] == nil {
					pf.X[i] = big.NewInt(1)
				}
				if pf.Z[i] == nil {
					pf.Z[i] = big.NewInt(1)
				}
			}
		}
		var ok bool
		okT, p := withDeadline(120*time.Second, func() { ok = pf.Verify(sess, Nb) })
		if !okT {
			out.Err, out.Sig = fmt.Errorf("mod-proof verifier did not return for a %s modulus", name), "hang:"+c.Family
			return out
		}
		if p != nil { // a crash is "not accepted" for C11; the crash itself is C06's subject
			out.Label += " (verifier panicked: reported under C06)"
			return out
		}
		if ok {
			return accepted("mod proof for a " + name + " modulus")
		}
	case "fac-small-factor":
		// N0 = small * large with the small factor between 2 and 480 bits
		bitsSmall := []int{2, 8, 16, 64, 128, 256, 400, 480}[c.Salt%8]
		key := fmt.Sprintf("fac-%d", bitsSmall)
		badMu.Lock()
		v, have := badMods[key]
		badMu.Unlock()
		if !have {
			var ps *big.Int
			if bitsSmall == 2 {
				ps = big.NewInt(3)
			} else {
				ps = prime(bitsSmall)
			}
			pl := prime(2048 - bitsSmall)
			v = [3]*big.Int{mul(ps, pl), ps, pl}
			badMu.Lock()
			badMods[key] = v
			badMu.Unlock()
		}
		out.Label = fmt.Sprintf("%s small=%dbits order=%d %s", c.Family, bitsSmall, c.Salt%2, c.Curve)
		a, b := v[1], v[2]
		if c.Salt%2 == 1 {
			a, b = b, a
		}
		pf, err := facproof.NewProof(sess, cv.EC, v[0], vp.NTildei, vp.H1i, vp.H2i, a, b, rand.Reader)
		if err == nil && pf.Verify(sess, cv.EC, v[0], vp.NTildei, vp.H1i, vp.H2i) {
			return accepted(fmt.Sprintf("modulus with a %d-bit factor", bitsSmall))
		}
	case "fac-big-mask":
		out.Label = fmt.Sprintf("%s %s size=%s which=%d", c.Family, c.Curve, c.Size, c.Salt%2)
		N0 := pp.PaillierSK.N
		k := defaultFacMasks(q, N0, vp.NTildei)
		ctl := refFacProof(sess, q, N0, vp.NTildei, vp.H1i, vp.H2i, pp.PaillierSK.P, pp.PaillierSK.Q, k)
		if !ctl.Verify(sess, cv.EC, N0, vp.NTildei, vp.H1i, vp.H2i) {
			return skip("reference fac prover with in-bound masks not accepted")
		}
		bound := mul(pow(q, 3), new(big.Int).Sqrt(N0))
		if c.Salt%2 == 0 {
			k.Alpha = grow(bound, c.Size, raw, nil)
		} else {
			k.Beta = grow(bound, c.Size, raw, nil)
		}
		pf := refFacProof(sess, q, N0, vp.NTildei, vp.H1i, vp.H2i, pp.PaillierSK.P, pp.PaillierSK.Q, k)
		if pf.Verify(sess, cv.EC, N0, vp.NTildei, vp.H1i, vp.H2i) {
			return accepted("fac proof whose mask exceeds q^3*sqrt(N0)")
		}
	case "range-big-plaintext", "range-big-mask":
		out.Label = fmt.Sprintf("%s %s size=%s", c.Family, c.Curve, c.Size)
		q3 := pow(q, 3)
		if c.Family == "range-big-plaintext" {
			m := grow(q3, c.Size, raw, N)
			cA, rA, err := pk.EncryptAndReturnRandomness(rand.Reader, m)
			if err != nil {
				return skip("encrypt: " + err.Error())
			}
			pf, err := mta.ProveRangeAlice(cv.EC, pk, cA, vp.NTildei, vp.H1i, vp.H2i, m, rA, rand.Reader)
			if err == nil && pf.Verify(cv.EC, pk, vp.NTildei, vp.H1i, vp.H2i, cA) {
				return accepted("range proof for a plaintext beyond q^3")
			}
			return out
		}
		m := new(big.Int).Mod(raw2, q)
		cA, rA, _ := pk.EncryptAndReturnRandomness(rand.Reader, m)
		k := defaultRangeMasks(q, N, vp.NTildei)
		ctl := refRangeProof(q, N, cA, vp.NTildei, vp.H1i, vp.H2i, m, rA, k)
		if !ctl.Verify(cv.EC, pk, vp.NTildei, vp.H1i, vp.H2i, cA) {
			return skip("reference range prover with in-bound masks not accepted")
		}
		k.Alpha = grow(q3, c.Size, raw, nil)
		pf := refRangeProof(q, N, cA, vp.NTildei, vp.H1i, vp.H2i, m, rA, k)
		if pf.Verify(cv.EC, pk, vp.NTildei, vp.H1i, vp.H2i, cA) {
			return accepted("range proof whose mask alpha exceeds q^3 (all equations hold)")
		}
	case "bob-big-multiplier", "bob-big-mask", "bobwc-wrong-point", "bob-big-alpha", "bob-big-gamma":
		out.Label = fmt.Sprintf("%s %s size=%s wc=%v", c.Family, c.Curve, c.Size, c.Salt%2 == 1)
		wc := c.Salt%2 == 1 || c.Family == "bobwc-wrong-point"
		q3, q7 := pow(q, 3), pow(q, 7)
		a := new(big.Int).Mod(raw, q)
		cA, _, _ := pk.EncryptAndReturnRandomness(rand.Reader, a)
		x := add(new(big.Int).Mod(raw2, add(q, -2)), 1)
		y := randBelow(pow(q, 5))
		switch c.Family {
		case "bob-big-multiplier":
			x = grow(q3, c.Size, raw, N)
		case "bob-big-mask":
			y = grow(q7, c.Size, raw, N)
		}
		cY, r, err := pk.EncryptAndReturnRandomness(rand.Reader, y)
		if err != nil {
			return skip("encrypt: " + err.Error())
		}
		c2, err := pk.HomoMult(new(big.Int).Mod(x, N), cA)
		if err != nil {
			return skip("homomult: " + err.Error())
		}
		c2, _ = pk.HomoAdd(c2, cY)
		var X *crypto.ECPoint
		xq := new(big.Int).Mod(x, q)
		if wc {
			if xq.Sign() == 0 {
				return skip("x = 0 mod q")
			}
			X = crypto.ScalarBaseMult(cv.EC, xq)
		}
		verify := func(pf *mta.ProofBobWC, XX *crypto.ECPoint) bool {
			if XX == nil {
				return pf.ProofBob.Verify(sess, cv.EC, pk, vp.NTildei, vp.H1i, vp.H2i, cA, c2)
			}
			return pf.Verify(sess, cv.EC, pk, vp.NTildei, vp.H1i, vp.H2i, cA, c2, XX)
		}
		switch c.Family {
		case "bob-big-multiplier", "bob-big-mask":
			pf, err := mta.ProveBobWC(sess, cv.EC, pk, vp.NTildei, vp.H1i, vp.H2i, cA, c2, x, y, r, X, rand.Reader)
			if err == nil && verify(pf, X) {
				return accepted("Bob proof with multiplier > q^3 / mask > q^7")
			}
		case "bobwc-wrong-point":
			Xbad := crypto.ScalarBaseMult(cv.EC, add(xq, 1))
			pf, err := mta.ProveBobWC(sess, cv.EC, pk, vp.NTildei, vp.H1i, vp.H2i, cA, c2, x, y, r, Xbad, rand.Reader)
			if err == nil && pf.Verify(sess, cv.EC, pk, vp.NTildei, vp.H1i, vp.H2i, cA, c2, Xbad) {
				return accepted("Bob-WC proof for a point that is not x*G (library prover)")
			}
			// adaptive: honest proof for X, then checked against X+G
			pf2, err := mta.ProveBobWC(sess, cv.EC, pk, vp.NTildei, vp.H1i, vp.H2i, cA, c2, x, y, r, X, rand.Reader)
			if err == nil && pf2.Verify(sess, cv.EC, pk, vp.NTildei, vp.H1i, vp.H2i, cA, c2, Xbad) {
				return accepted("Bob-WC proof for X accepted for another point")
			}
			// cheating U: prove with the real x, then set U := s1*G - e*Xbad for the challenge of the ORIGINAL transcript
			k := defaultBobMasks(q, N, vp.NTildei)
			pf3 := refBobProof(sess, cv, N, vp.NTildei, vp.H1i, vp.H2i, cA, c2, x, y, r, Xbad, k)
			// pf3 hashed Xbad and u = alpha*G; the point equation fails unless the verifier ignores U/X
			if pf3.Verify(sess, cv.EC, pk, vp.NTildei, vp.H1i, vp.H2i, cA, c2, Xbad) {
				return accepted("Bob-WC transcript for a wrong point (reference prover)")
			}
			// mirror image: the multiplier really used is q - x, the stated point is X = x*G = -((q-x)*G), and the
			// mask point is sent negated; both sides of the point equation then differ only in sign, which a
			// comparison of one coordinate cannot see
			xm := new(big.Int).Sub(q, xq)
			if c2m, err := pk.HomoMult(xm, cA); err == nil {
				c2m, _ = pk.HomoAdd(c2m, cY)
				km := defaultBobMasks(q, N, vp.NTildei)
				ctl := refBobProof(sess, cv, N, vp.NTildei, vp.H1i, vp.H2i, cA, c2m, xm, y, r, crypto.ScalarBaseMult(cv.EC, xm), km)
				if ctl.Verify(sess, cv.EC, pk, vp.NTildei, vp.H1i, vp.H2i, cA, c2m, crypto.ScalarBaseMult(cv.EC, xm)) {
					km.NegU = true
					pf5 := refBobProof(sess, cv, N, vp.NTildei, vp.H1i, vp.H2i, cA, c2m, xm, y, r, X, km)
					if pf5.Verify(sess, cv.EC, pk, vp.NTildei, vp.H1i, vp.H2i, cA, c2m, X) {
						return accepted("Bob-WC proof for the NEGATIVE of the point really used (mirrored mask point)")
					}
					out.Label += " mirrored"
				}
			}
			// adaptive U with the LIBRARY prover: its first random draw (the mask alpha) is supplied by the
			// harness, so the challenge can be recovered from the response (s1 = e*x + alpha) without knowing
			// how the challenge is derived; then U' := s1*G - e*Xbad makes the point equation hold for Xbad
			// under that e. A verifier whose challenge binds U recomputes another e and rejects.
			q3 := pow(q, 3)
			alpha := add(new(big.Int).Rsh(q3, 3), int64(c.Salt))
			nb := (q3.BitLen() + 7) / 8
			rd := &prefixReader{prefix: alpha.FillBytes(make([]byte, nb)), rest: rand.Reader}
			pf4, err := mta.ProveBobWC(sess, cv.EC, pk, vp.NTildei, vp.H1i, vp.H2i, cA, c2, x, y, r, Xbad, rd)
			if err == nil {
				if xx := new(big.Int).Sub(pf4.S1, alpha); xx.Sign() >= 0 && new(big.Int).Mod(xx, x).Sign() == 0 {
					e := new(big.Int).Div(xx, x)
					if e.Cmp(q) < 0 {
						s1 := new(big.Int).Mod(pf4.S1, q)
						em := new(big.Int).Mod(new(big.Int).Neg(e), q)
						if s1.Sign() != 0 && em.Sign() != 0 {
							if U2, err := crypto.ScalarBaseMult(cv.EC, s1).Add(Xbad.ScalarMult(em)); err == nil {
								forged := &mta.ProofBobWC{ProofBob: pf4.ProofBob, U: U2}
								if forged.Verify(sess, cv.EC, pk, vp.NTildei, vp.H1i, vp.H2i, cA, c2, Xbad) {
									return accepted("Bob-WC proof with U chosen after the challenge (U is not bound by the challenge)")
								}
								out.Label += " adaptive-U"
							}
						}
					}
				}
			}
		default:
			k := defaultBobMasks(q, N, vp.NTildei)
			ctl := refBobProof(sess, cv, N, vp.NTildei, vp.H1i, vp.H2i, cA, c2, x, y, r, X, k)
			if !verify(ctl, X) {
				return skip("reference Bob prover with in-bound masks not accepted")
			}
			if c.Family == "bob-big-alpha" {
				k.Alpha = grow(q3, c.Size, raw, nil)
			} else {
				k.Gamma = grow(q7, c.Size, raw, nil)
			}
			pf := refBobProof(sess, cv, N, vp.NTildei, vp.H1i, vp.H2i, cA, c2, x, y, r, X, k)
			if verify(pf, X) {
				return accepted("Bob transcript whose mask exceeds its bound (all equations hold)")
			}
		}
	case "paillier-domain":
		N2 := mul(N, N)
		cOK, _ := pk.Encrypt(rand.Reader, new(big.Int).Mod(raw, N))
		for _, bad := range []*big.Int{big.NewInt(-1), new(big.Int).Set(N), add(N, 1), grow(N, c.Size, raw, nil)} {
			if v, err := pk.Encrypt(rand.Reader, bad); err == nil || v != nil {
				return accepted("Encrypt returned a value for a plaintext outside [0,N)")
			}
			if v, err := pk.HomoMult(bad, cOK); err == nil || v != nil {
				return accepted("HomoMult returned a value for a scalar outside [0,N)")
			}
		}
		for _, bad := range []*big.Int{big.NewInt(-1), new(big.Int).Set(N2), add(N2, 1), grow(N2, c.Size, raw, nil)} {
			if v, err := pk.HomoMult(big.NewInt(3), bad); err == nil || v != nil {
				return accepted("HomoMult returned a value for a ciphertext outside [0,N^2)")
			}
			if v, err := pk.HomoAdd(cOK, bad); err == nil || v != nil {
				return accepted("HomoAdd returned a value for a ciphertext outside [0,N^2)")
			}
			if v, err := pp.PaillierSK.Decrypt(bad); err == nil || v != nil {
				return accepted("Decrypt returned a value for a ciphertext outside [0,N^2)")
			}
		}
		for _, bad := range []*big.Int{big.NewInt(0), pp.PaillierSK.P, mul(pp.PaillierSK.Q, big.NewInt(int64(c.Salt+2))), new(big.Int).Set(N)} {
			if v, err := pp.PaillierSK.Decrypt(bad); err == nil || v != nil {
				return accepted("Decrypt returned a value for a ciphertext sharing a factor with N")
			}
		}
	}
	return out
}

func TestC11Soundness(t *testing.T) {
	r := ev.New(t, "C11")
	ev.Drive(t, r, genC11, runC11)
}

// TestC11PaillierSmallPrimeSweep: the Paillier key proof must reject every modulus divisible by a prime
// below 1000 -- also when every root equation holds. For N = r*Q with gcd(N, phi(N)) = 1 the library's own
// prover computes genuine N-th roots, so only the small-prime screen stands between such a modulus and
// acceptance. Exhaustive over the 168 primes r (N has exactly 512 bits so that the challenge sampler
// terminates, cf. finding F8), with a control modulus (two 256-bit primes) that must be accepted.
func TestC11PaillierSmallPrimeSweep(t *testing.T) {
	r := ev.New(t, "C11")
	type sweep struct {
		R    int64 // 0 = control
		Seed int
	}
	var cases []sweep
	for p := int64(3); p < 1000; p++ { // 2 is left out: an even modulus shares the factor 2 with phi(N), no roots exist
		if isPrimeSmall(p) {
			cases = append(cases, sweep{R: p, Seed: int(ev.Seed())})
		}
	}
	cases = append(cases, sweep{R: 0})
	ev.Each(t, r, cases, func(c sweep) ev.Outcome {
		out := ev.Outcome{Label: fmt.Sprintf("paillier key proof, modulus divisible by %d", c.R), Nontrivial: true}
		var P, Q *big.Int
		for tries := 0; ; tries++ {
			if c.R == 0 {
				P, Q = prime(256), prime(256)
			} else {
				P = big.NewInt(c.R)
				// a prime cofactor that makes N = r*Q exactly 512 bits long
				lo := new(big.Int).Div(new(big.Int).Lsh(one, 511), P)
				hi := new(big.Int).Div(new(big.Int).Lsh(one, 512), P)
				for {
					Q = add(new(big.Int).Add(lo, randBelow(new(big.Int).Sub(hi, lo))), 1)
					Q.SetBit(Q, 0, 1)
					if Q.ProbablyPrime(20) {
						break
					}
				}
			}
			N := mul(P, Q)
			phi := mul(add(P, -1), add(Q, -1))
			if N.BitLen() == 512 && P.Cmp(Q) != 0 && new(big.Int).GCD(nil, nil, N, phi).Cmp(one) == 0 {
				break
			}
			if tries > 200 {
				out.Skip = true
				return out
			}
		}
		N := mul(P, Q)
		sk := &paillier.PrivateKey{PublicKey: paillier.PublicKey{N: N}, PhiN: mul(add(P, -1), add(Q, -1)), P: P, Q: Q}
		pub := crypto.ScalarBaseMult(tss.S256(), big.NewInt(int64(7+c.R)))
		k := big.NewInt(int64(1000 + c.R))
		var pf paillier.Proof
		okT, pn := withDeadline(120*time.Second, func() { pf = sk.Proof(k, pub) })
		if !okT || pn != nil {
			out.Skip = true // the prover could not run on this modulus: nothing to present
			return out
		}
		var ok bool
		var err error
		okT, pn = withDeadline(120*time.Second, func() { ok, err = pf.Verify(N, k, pub) })
		if !okT || pn != nil {
			return out // not accepted (crashes and hangs are C06's subject)
		}
		if c.R == 0 {
			if !ok {
				out.Label = "uncalibrated paillier key proof sweep (control modulus rejected: " + fmt.Sprint(err) + ")"
				out.Nontrivial = false
			} else {
				out.Label = "paillier key proof, control modulus accepted (calibration)"
			}
			return out
		}
		if ok {
			out.Err = fmt.Errorf("Paillier key proof accepted for a modulus divisible by the small prime %d (all root equations genuine)", c.R)
			out.Sig = fmt.Sprintf("accepted:paillier-small-prime:%d", c.R)
		}
		return out
	})
	r.SetExhaustive(true)
}

// TestC11ChallengeDiversity: the soundness error of the repeated proofs (mod: 2^-80, Paillier key: 13 rounds)
// rests on the rounds having independent challenges. The challenges a verifier will use can be read off an
// honest proof (mod: y_i = z_i^N mod N by the verifier's own first equation) or computed with the exported
// derivation (Paillier key: GenerateXs); they must be pairwise different.
func TestC11ChallengeDiversity(t *testing.T) {
	r := ev.New(t, "C11")
	type div struct {
		Sys  string
		Set  int
		Sess B
	}
	var cases []div
	for set := 0; set < 5; set++ {
		cases = append(cases, div{"mod", set, bx([]byte{byte(set), 7})}, div{"paillier", set, ""})
	}
	ev.Each(t, r, cases, func(c div) ev.Outcome {
		out := ev.Outcome{Label: fmt.Sprintf("challenge diversity %s set=%d", c.Sys, c.Set), Nontrivial: true}
		pp := preParams()[c.Set]
		N := pp.PaillierSK.N
		var chs []*big.Int
		switch c.Sys {
		case "mod":
			pf, err := modproof.NewProof(c.Sess.Bytes(), N, pp.PaillierSK.P, pp.PaillierSK.Q, rand.Reader)
			if err != nil || !pf.Verify(c.Sess.Bytes(), N) {
				out.Label = "uncalibrated " + out.Label
				out.Nontrivial = false
				return out
			}
			for i := range pf.Z {
				chs = append(chs, new(big.Int).Exp(pf.Z[i], N, N))
			}
		default:
			pub := crypto.ScalarBaseMult(tss.S256(), big.NewInt(int64(1000+c.Set)))
			chs = paillier.GenerateXs(paillier.ProofIters, big.NewInt(int64(77+c.Set)), N, pub)
		}
		seen := map[string]int{}
		for i, y := range chs {
			if j, dup := seen[y.String()]; dup {
				out.Err = fmt.Errorf("%s proof: rounds %d and %d use the same challenge (%d rounds, %d distinct challenges so far)", c.Sys, j, i, len(chs), len(seen))
				out.Sig = "challenges-repeat:" + c.Sys
				return out
			}
			seen[y.String()] = i
		}
		return out
	})
	r.SetExhaustive(true)
}

package props

import (
	"bytes"
	"crypto/ed25519"
	"fmt"
	"math/big"

	"github.com/bnb-chain/tss-lib/v2/common"
	"github.com/bnb-chain/tss-lib/v2/crypto"
	eckeygen "github.com/bnb-chain/tss-lib/v2/ecdsa/keygen"
	edkeygen "github.com/bnb-chain/tss-lib/v2/eddsa/keygen"
	"github.com/btcsuite/btcd/btcec/v2"
	btcecdsa "github.com/btcsuite/btcd/btcec/v2/ecdsa"

	"verif/harness/ref"
)

func expectedM(digest *big.Int, fbl int) []byte {
	if fbl <= 0 {
		return digest.Bytes()
	}
	out := make([]byte, fbl)
	digest.FillBytes(out)
	return out
}

// checkECDSASig is the C01 oracle for one emitted signature.
func checkECDSASig(sig *common.SignatureData, pubX, pubY, digest *big.Int, fbl int) error {
	if sig == nil {
		return fmt.Errorf("nil signature data")
	}
	if len(sig.R) != 32 || len(sig.S) != 32 {
		return fmt.Errorf("R/S not fixed-width: len(R)=%d len(S)=%d", len(sig.R), len(sig.S))
	}
	if !bytes.Equal(sig.Signature, append(append([]byte{}, sig.R...), sig.S...)) {
		return fmt.Errorf("Signature != R||S (len %d)", len(sig.Signature))
	}
	if len(sig.SignatureRecovery) != 1 {
		return fmt.Errorf("recovery id has %d bytes", len(sig.SignatureRecovery))
	}
	if !bytes.Equal(sig.M, expectedM(digest, fbl)) {
		return fmt.Errorf("echoed message %x != expected %x (fullBytesLen %d)", sig.M, expectedM(digest, fbl), fbl)
	}
	r, s := new(big.Int).SetBytes(sig.R), new(big.Int).SetBytes(sig.S)
	half := new(big.Int).Rsh(ref.Secp.N, 1)
	if s.Cmp(half) > 0 {
		return fmt.Errorf("S is not in the lower half of the order")
	}
	pub := ref.Point{X: pubX, Y: pubY}
	if !ref.Secp.ECDSAVerify(pub, digest, r, s) {
		return fmt.Errorf("reference ECDSA verification fails under the expected public key")
	}
	// second opinion: btcec, hash = echoed message left-padded to 32 bytes
	hash := make([]byte, 32)
	if len(sig.M) > 32 {
		return fmt.Errorf("echoed message longer than 32 bytes")
	}
	copy(hash[32-len(sig.M):], sig.M)
	var rs, ss btcec.ModNScalar
	if rs.SetByteSlice(sig.R) || ss.SetByteSlice(sig.S) {
		return fmt.Errorf("r or s overflows the group order")
	}
	var fx, fy btcec.FieldVal
	fx.SetByteSlice(pubX.FillBytes(make([]byte, 32)))
	fy.SetByteSlice(pubY.FillBytes(make([]byte, 32)))
	bpk := btcec.NewPublicKey(&fx, &fy)
	if !btcecdsa.NewSignature(&rs, &ss).Verify(hash, bpk) {
		return fmt.Errorf("btcec verification fails under the expected public key")
	}
	recid := int(sig.SignatureRecovery[0])
	if recid < 0 || recid > 3 {
		return fmt.Errorf("recovery id %d out of range", recid)
	}
	rec, err := ref.Secp.ECDSARecover(recid, digest, r, s)
	if err != nil || rec.X.Cmp(pubX) != 0 || rec.Y.Cmp(pubY) != 0 {
		return fmt.Errorf("recovery byte %d does not recover the public key (reference recovery: %v)", recid, err)
	}
	compact := append([]byte{byte(27 + recid)}, sig.Signature...)
	bp, _, err := btcecdsa.RecoverCompact(compact, hash)
	if err != nil || bp.X().Cmp(pubX) != 0 || bp.Y().Cmp(pubY) != 0 {
		return fmt.Errorf("btcec RecoverCompact does not recover the public key: %v", err)
	}
	return nil
}

func leInt(b []byte) *big.Int {
	r := make([]byte, len(b))
	for i := range b {
		r[i] = b[len(b)-1-i]
	}
	return new(big.Int).SetBytes(r)
}

// checkEdDSASig is the C02 oracle for one emitted signature. wantM is what the echoed message must be.
func checkEdDSASig(sig *common.SignatureData, pubX, pubY *big.Int, wantM []byte) error {
	if sig == nil {
		return fmt.Errorf("nil signature data")
	}
	if len(sig.Signature) != 64 {
		return fmt.Errorf("signature has %d bytes", len(sig.Signature))
	}
	if !bytes.Equal(sig.M, wantM) {
		return fmt.Errorf("echoed message %x != expected %x", sig.M, wantM)
	}
	enc := ref.Ed.Encode(ref.Point{X: pubX, Y: pubY})
	if !ed25519.Verify(ed25519.PublicKey(enc[:]), sig.M, sig.Signature) {
		return fmt.Errorf("crypto/ed25519 rejects the signature over the echoed message")
	}
	if !ref.Ed25519Verify(enc, sig.M, sig.Signature) {
		return fmt.Errorf("reference RFC 8032 verification rejects the signature")
	}
	if leInt(sig.Signature[32:]).Cmp(ref.Ed.L) >= 0 {
		return fmt.Errorf("S not reduced")
	}
	// the R and S fields are the two halves (as integers)
	if new(big.Int).SetBytes(sig.R).Cmp(leInt(sig.Signature[:32])) != 0 || new(big.Int).SetBytes(sig.S).Cmp(leInt(sig.Signature[32:])) != 0 {
		return fmt.Errorf("R/S fields are not the two halves of Signature")
	}
	return nil
}

// ------------------------------------------------------------------------------------------------
// C03 invariant: a consistent (t,n) sharing of one key.

type shareView struct {
	Xi, ShareID *big.Int
	Ks          []*big.Int
	BigXj       []*crypto.ECPoint
	Pub         *crypto.ECPoint
}

func viewEC(k *eckeygen.LocalPartySaveData) shareView {
	return shareView{Xi: k.Xi, ShareID: k.ShareID, Ks: k.Ks, BigXj: k.BigXj, Pub: k.ECDSAPub}
}
func viewED(k *edkeygen.LocalPartySaveData) shareView {
	return shareView{Xi: k.Xi, ShareID: k.ShareID, Ks: k.Ks, BigXj: k.BigXj, Pub: k.EDDSAPub}
}

// lincomb computes sum coef[k]*P[k] with the reference arithmetic; ok=false if it is the secp identity.
func (c curveRef) lincomb(coefs []*big.Int, pts []*crypto.ECPoint) (x, y *big.Int, ok bool) {
	if c.Name == "secp256k1" {
		acc := ref.Point{Inf: true}
		for k := range coefs {
			acc = ref.Secp.Add(acc, ref.Secp.Mul(coefs[k], ref.Point{X: pts[k].X(), Y: pts[k].Y()}))
		}
		if acc.Inf {
			return nil, nil, false
		}
		return acc.X, acc.Y, true
	}
	acc := ref.Ed.Identity()
	for k := range coefs {
		acc = ref.Ed.Add(acc, ref.Ed.Mul(coefs[k], ref.Point{X: pts[k].X(), Y: pts[k].Y()}))
	}
	return acc.X, acc.Y, true
}

// checkSharing verifies the C03 invariant over the views of the parties at sorted indices idx (a party
// may be missing: views[i]==nil is skipped, used when only honest parties' outputs are judged).
// keys are the sorted party keys; xiReduced=false tolerates un-reduced Xi (resharing output).
func checkSharing(c curveRef, views []*shareView, keys []*big.Int, t int, subsets [][]int) error {
	n := len(keys)
	var first *shareView
	for i, v := range views {
		if v == nil {
			continue
		}
		if v.Pub == nil || v.Xi == nil || v.ShareID == nil || len(v.Ks) != n || len(v.BigXj) != n {
			return fmt.Errorf("party %d: incomplete key data (Ks %d, BigXj %d, n %d)", i, len(v.Ks), len(v.BigXj), n)
		}
		if !c.refOnCurve(v.Pub.X(), v.Pub.Y()) {
			return fmt.Errorf("party %d: group key not on the curve", i)
		}
		for j := range keys {
			if v.Ks[j] == nil || v.Ks[j].Cmp(keys[j]) != 0 {
				return fmt.Errorf("party %d: Ks[%d] is not party %d's key", i, j, j)
			}
			if v.BigXj[j] == nil || !c.refOnCurve(v.BigXj[j].X(), v.BigXj[j].Y()) {
				return fmt.Errorf("party %d: BigXj[%d] missing or not on the curve", i, j)
			}
		}
		if v.ShareID.Cmp(keys[i]) != 0 {
			return fmt.Errorf("party %d: ShareID is not its own key", i)
		}
		if first == nil {
			first = v
		} else {
			if !v.Pub.Equals(first.Pub) {
				return fmt.Errorf("party %d holds a different group public key", i)
			}
			for j := range keys {
				if !v.BigXj[j].Equals(first.BigXj[j]) {
					return fmt.Errorf("party %d holds a different public share point for party %d", i, j)
				}
			}
		}
		// Xi*G == BigXj[i]
		xr := new(big.Int).Mod(v.Xi, c.Q)
		x, y, ok := c.refBaseMul(xr)
		if !ok || !ptEq(v.BigXj[i], x, y) {
			return fmt.Errorf("party %d: secret share times G is not its public share point", i)
		}
	}
	if first == nil {
		return fmt.Errorf("no key data to judge")
	}
	if t+1 > n {
		return fmt.Errorf("t+1 > n")
	}
	// degree <= t in the exponent with constant term = group key
	xs := make([]*big.Int, t+1)
	for k := 0; k <= t; k++ {
		xs[k] = new(big.Int).Mod(keys[k], c.Q)
	}
	l0, err := ref.LagrangeAt(xs, big.NewInt(0), c.Q)
	if err != nil {
		return err
	}
	if x, y, ok := c.lincomb(l0, first.BigXj[:t+1]); !ok || !ptEq(first.Pub, x, y) {
		return fmt.Errorf("the first t+1 public share points do not interpolate to the group public key")
	}
	for j := t + 1; j < n; j++ {
		lj, err := ref.LagrangeAt(xs, new(big.Int).Mod(keys[j], c.Q), c.Q)
		if err != nil {
			return err
		}
		if x, y, ok := c.lincomb(lj, first.BigXj[:t+1]); !ok || !ptEq(first.BigXj[j], x, y) {
			return fmt.Errorf("public share point %d is not on the degree-%d polynomial through the first %d points", j, t, t+1)
		}
	}
	// field interpolation over subsets of parties whose Xi we know
	for _, sub := range subsets {
		sx := make([]*big.Int, len(sub))
		sy := make([]*big.Int, len(sub))
		okSub := true
		for k, i := range sub {
			if views[i] == nil {
				okSub = false
				break
			}
			sx[k] = new(big.Int).Mod(keys[i], c.Q)
			sy[k] = new(big.Int).Mod(views[i].Xi, c.Q)
		}
		if !okSub {
			continue
		}
		priv, err := ref.Interpolate(sx, sy, big.NewInt(0), c.Q)
		if err != nil {
			return err
		}
		x, y, ok := c.refBaseMul(priv)
		if !ok || !ptEq(first.Pub, x, y) {
			return fmt.Errorf("shares of parties %v interpolate to a private key that does not match the group public key", sub)
		}
	}
	return nil
}

// checkECAux: the ECDSA-only part of the C03 invariant (Paillier / ring-Pedersen views).
func checkECAux(keys []*eckeygen.LocalPartySaveData) error {
	var first *eckeygen.LocalPartySaveData
	n := 0
	for _, k := range keys {
		if k != nil {
			n = len(k.Ks)
		}
	}
	for i, k := range keys {
		if k == nil {
			continue
		}
		if len(k.PaillierPKs) != n || len(k.NTildej) != n || len(k.H1j) != n || len(k.H2j) != n {
			return fmt.Errorf("party %d: auxiliary slices have wrong length", i)
		}
		for j := 0; j < n; j++ {
			if k.PaillierPKs[j] == nil || k.PaillierPKs[j].N == nil || k.NTildej[j] == nil || k.H1j[j] == nil || k.H2j[j] == nil {
				return fmt.Errorf("party %d: auxiliary value for party %d missing", i, j)
			}
		}
		if first == nil {
			first = k
		} else {
			for j := 0; j < n; j++ {
				if k.PaillierPKs[j].N.Cmp(first.PaillierPKs[j].N) != 0 {
					return fmt.Errorf("party %d recorded a different Paillier modulus for party %d", i, j)
				}
				if k.NTildej[j].Cmp(first.NTildej[j]) != 0 || k.H1j[j].Cmp(first.H1j[j]) != 0 || k.H2j[j].Cmp(first.H2j[j]) != 0 {
					return fmt.Errorf("party %d recorded different ring-Pedersen parameters for party %d", i, j)
				}
			}
		}
		if k.PaillierSK == nil || k.PaillierSK.N == nil || k.PaillierSK.P == nil || k.PaillierSK.Q == nil {
			return fmt.Errorf("party %d: Paillier private key missing", i)
		}
		if k.PaillierSK.N.Cmp(k.PaillierPKs[i].N) != 0 {
			return fmt.Errorf("party %d: its Paillier private key does not match the modulus stored at its own index", i)
		}
		if new(big.Int).Mul(k.PaillierSK.P, k.PaillierSK.Q).Cmp(k.PaillierSK.N) != 0 {
			return fmt.Errorf("party %d: Paillier N != P*Q", i)
		}
		if k.NTildei == nil || k.NTildei.Cmp(k.NTildej[i]) != 0 || k.H1i.Cmp(k.H1j[i]) != 0 || k.H2i.Cmp(k.H2j[i]) != 0 {
			return fmt.Errorf("party %d: own NTilde/h1/h2 differ from the values stored at its own index", i)
		}
	}
	// cross: what others stored for i is i's own
	for i, k := range keys {
		if k == nil {
			continue
		}
		for j, o := range keys {
			if o == nil || j == i {
				continue
			}
			if o.PaillierPKs[i].N.Cmp(k.PaillierSK.N) != 0 {
				return fmt.Errorf("party %d stored a Paillier modulus for party %d that is not party %d's key", j, i, i)
			}
			if o.NTildej[i].Cmp(k.NTildei) != 0 || o.H1j[i].Cmp(k.H1i) != 0 || o.H2j[i].Cmp(k.H2i) != 0 {
				return fmt.Errorf("party %d stored ring-Pedersen parameters for party %d that are not party %d's", j, i, i)
			}
		}
	}
	return nil
}

func combos(n, k int) [][]int {
	var out [][]int
	var rec func(start int, cur []int)
	rec = func(start int, cur []int) {
		if len(cur) == k {
			out = append(out, append([]int{}, cur...))
			return
		}
		for i := start; i < n; i++ {
			rec(i+1, append(cur, i))
		}
	}
	rec(0, nil)
	return out
}

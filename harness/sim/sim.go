// Package sim is a single-threaded network simulator for the six tss-lib protocols. It owns the
// whole delivery schedule: parties are driven only through Start / Update / UpdateFromBytes, every
// message they emit becomes a set of in-flight deliveries, and a Scheduler picks what happens next.
package sim

import (
	"fmt"
	"math/big"
	"sync/atomic"
	"time"

	"github.com/bnb-chain/tss-lib/v2/common"
	eckeygen "github.com/bnb-chain/tss-lib/v2/ecdsa/keygen"
	edkeygen "github.com/bnb-chain/tss-lib/v2/eddsa/keygen"
	"github.com/bnb-chain/tss-lib/v2/tss"
)

type Node struct {
	Idx  int
	ID   *tss.PartyID
	Role string // "" (keygen/signing), "old", "new"
	P    tss.Party

	out      chan tss.Message
	endECKey chan *eckeygen.LocalPartySaveData
	endEDKey chan *edkeygen.LocalPartySaveData
	endSig   chan *common.SignatureData

	Started  bool
	StartErr *tss.Error
	Errs     []*tss.Error // errors returned by Update*/Start, in order
	ECKeys   []*eckeygen.LocalPartySaveData
	EDKeys   []*edkeygen.LocalPartySaveData
	Sigs     []*common.SignatureData
	Emitted  []*Emit

	Silent bool // everything it emits from now on is dropped (crashed sender)
	Dead   bool // nothing is delivered to it any more
}

func (n *Node) Results() int   { return len(n.ECKeys) + len(n.EDKeys) + len(n.Sigs) }
func (n *Node) Finished() bool { return n.Results() > 0 }
func (n *Node) Errored() bool  { return len(n.Errs) > 0 }

// Emit is one message a party put on its out channel.
type Emit struct {
	Seq      int
	From     int
	Msg      tss.Message
	Type     string
	Bcast    bool
	ToOld    bool
	ToOldNew bool
	ToIDs    []*tss.PartyID // as given by the party (nil = everybody)
	To       []int          // resolved recipient node indices (self excluded)
	Bytes    []byte
	Step     int
	Dropped  bool
}

// Delivery is one (message, recipient) pair.
type Delivery struct {
	ID     int
	E      *Emit
	To     int
	From   *tss.PartyID
	Bytes  []byte
	Bcast  bool
	Parsed tss.ParsedMessage // when non-nil and UseParsed, Update(Parsed) is used instead of UpdateFromBytes
	Count  int               // times delivered
	Tag    string            // free: set by tamper hooks
}

type StepKind int

const (
	StepStart StepKind = iota
	StepDeliver
	StepRedeliver
)

type Step struct {
	N    int
	Kind StepKind
	Node int
	D    *Delivery
	OK   bool
	Err  *tss.Error
}

type Net struct {
	Nodes   []*Node
	Pending []*Delivery
	Done    []*Delivery
	Emits   []*Emit
	StepN   int
	nextDel int

	UseParsed  func(d *Delivery) bool // choose Update(parsed) instead of UpdateFromBytes for this delivery
	OnEmit     func(e *Emit)          // called for every emitted message (before deliveries are created)
	OnCreate   func(d *Delivery) bool // called for every created delivery; return false to drop it
	AfterStep  func(s Step)           // invariant hook
	EmitErrs   []string               // routing problems noticed while resolving recipients
	PreStart   int                    // deliveries made to a party before its Start
	CallBudget time.Duration          // watchdog for a single party call (0: DefaultCallBudget)
	InCall     int32                  // atomically: 1 + index of the node whose Start / Update is running, 0 = none
	Steps      int64                  // atomically: number of completed steps (for observers on other goroutines)
}

func (n *Net) nodeByID(id *tss.PartyID) int {
	for _, nd := range n.Nodes {
		if nd.ID == id {
			return nd.Idx
		}
	}
	return -1
}

func (n *Net) drain(nd *Node) {
	for {
		select {
		case m := <-nd.out:
			n.emit(nd, m)
			continue
		default:
		}
		break
	}
	for {
		select {
		case k := <-nd.endECKey:
			nd.ECKeys = append(nd.ECKeys, k)
			continue
		case k := <-nd.endEDKey:
			nd.EDKeys = append(nd.EDKeys, k)
			continue
		case s := <-nd.endSig:
			nd.Sigs = append(nd.Sigs, s)
			continue
		default:
		}
		break
	}
}

func (n *Net) emit(nd *Node, m tss.Message) {
	e := &Emit{Seq: len(n.Emits), From: nd.Idx, Msg: m, Type: m.Type(), Bcast: m.IsBroadcast(),
		ToOld: m.IsToOldCommittee(), ToOldNew: m.IsToOldAndNewCommittees(), ToIDs: m.GetTo(), Step: n.StepN}
	bz, _, err := m.WireBytes()
	if err != nil {
		n.EmitErrs = append(n.EmitErrs, fmt.Sprintf("WireBytes failed for %s from %d: %v", e.Type, nd.Idx, err))
	}
	e.Bytes = bz
	if e.ToIDs == nil {
		for _, o := range n.Nodes {
			if o.Idx != nd.Idx {
				e.To = append(e.To, o.Idx)
			}
		}
	} else {
		for _, id := range e.ToIDs {
			j := n.nodeByID(id)
			if j < 0 {
				n.EmitErrs = append(n.EmitErrs, fmt.Sprintf("%s from node %d addressed to an unknown party %v", e.Type, nd.Idx, id))
				continue
			}
			if j == nd.Idx {
				if !e.Bcast {
					n.EmitErrs = append(n.EmitErrs, fmt.Sprintf("p2p %s from node %d addressed to itself", e.Type, nd.Idx))
				}
				continue
			}
			e.To = append(e.To, j)
		}
	}
	n.Emits = append(n.Emits, e)
	nd.Emitted = append(nd.Emitted, e)
	if nd.Silent {
		e.Dropped = true
	}
	if n.OnEmit != nil {
		n.OnEmit(e)
	}
	if e.Dropped {
		return
	}
	for _, to := range e.To {
		d := &Delivery{ID: n.nextDel, E: e, To: to, From: nd.ID, Bytes: e.Bytes, Bcast: e.Bcast}
		n.nextDel++
		if pm, ok := m.(tss.ParsedMessage); ok {
			d.Parsed = pm
		}
		if n.OnCreate != nil && !n.OnCreate(d) {
			continue
		}
		n.Pending = append(n.Pending, d)
	}
}

// Inject adds a harness-made delivery to the in-flight set.
func (n *Net) Inject(d *Delivery) {
	d.ID = n.nextDel
	n.nextDel++
	n.Pending = append(n.Pending, d)
}

func (n *Net) after(s Step) {
	atomic.AddInt64(&n.Steps, 1)
	for _, nd := range n.Nodes {
		n.drain(nd)
	}
	if n.AfterStep != nil {
		n.AfterStep(s)
	}
	n.StepN++
}

// OnHang, when set, is called (from a timer goroutine) when a single Start / Update call of a party has not
// returned after the net's call budget: the calling goroutine is stuck inside the library, so the callback
// has to record the case and end the process itself.
var OnHang func(desc string)

// DefaultCallBudget is far above anything a single party call needs (the slowest legitimate call, an ECDSA
// round with all proofs for five parties, takes a few seconds even on a loaded machine). Nets whose parties
// generate their own pre-parameters inside a call raise CallBudget.
var DefaultCallBudget = 5 * time.Minute

func (n *Net) guarded(desc func() string, f func()) {
	if OnHang == nil {
		f()
		return
	}
	b := n.CallBudget
	if b == 0 {
		b = DefaultCallBudget
	}
	t := time.AfterFunc(b, func() { OnHang(desc() + fmt.Sprintf(" did not return within %v", b)) })
	defer t.Stop()
	f()
}

func (n *Net) Start(i int) Step {
	nd := n.Nodes[i]
	nd.Started = true
	var err *tss.Error
	atomic.StoreInt32(&n.InCall, int32(i+1))
	defer atomic.StoreInt32(&n.InCall, 0)
	n.guarded(func() string { return fmt.Sprintf("Start() of party %d", i) }, func() { err = nd.P.Start() })
	if err != nil {
		nd.StartErr = err
		nd.Errs = append(nd.Errs, err)
	}
	s := Step{N: n.StepN, Kind: StepStart, Node: i, OK: err == nil, Err: err}
	n.after(s)
	return s
}

func (n *Net) doDeliver(d *Delivery, kind StepKind) Step {
	nd := n.Nodes[d.To]
	var ok bool
	var err *tss.Error
	if !nd.Started {
		n.PreStart++
	}
	if !nd.Dead {
		atomic.StoreInt32(&n.InCall, int32(d.To+1))
		n.guarded(func() string {
			if d.E == nil {
				return fmt.Sprintf("Update of party %d with an injected message", d.To)
			}
			return fmt.Sprintf("Update of party %d with a %s from party %d", d.To, d.E.Type, d.E.From)
		}, func() {
			if n.UseParsed != nil && d.Parsed != nil && n.UseParsed(d) {
				// re-parse from bytes so that the receiving party never shares the sender's message object
				pm, perr := tss.ParseWireMessage(d.Bytes, d.From, d.Bcast)
				if perr != nil {
					err = nd.P.WrapError(perr)
				} else {
					ok, err = nd.P.Update(pm)
				}
			} else {
				ok, err = nd.P.UpdateFromBytes(d.Bytes, d.From, d.Bcast)
			}
		})
		atomic.StoreInt32(&n.InCall, 0)
	}
	d.Count++
	if err != nil {
		nd.Errs = append(nd.Errs, err)
	}
	s := Step{N: n.StepN, Kind: kind, Node: d.To, D: d, OK: ok, Err: err}
	n.after(s)
	return s
}

// Deliver delivers the k-th pending item.
func (n *Net) Deliver(k int) Step {
	d := n.Pending[k]
	n.Pending = append(n.Pending[:k:k], n.Pending[k+1:]...)
	n.Done = append(n.Done, d)
	return n.doDeliver(d, StepDeliver)
}

// Redeliver delivers an already delivered item again (duplicate).
func (n *Net) Redeliver(k int) Step {
	return n.doDeliver(n.Done[k], StepRedeliver)
}

func (n *Net) Unstarted() []int {
	var out []int
	for _, nd := range n.Nodes {
		if !nd.Started {
			out = append(out, nd.Idx)
		}
	}
	return out
}

func (n *Net) Quiescent() bool { return len(n.Pending) == 0 && len(n.Unstarted()) == 0 }

// AnyErr reports whether some node returned an error.
func (n *Net) AnyErr() bool {
	for _, nd := range n.Nodes {
		if nd.Errored() {
			return true
		}
	}
	return false
}

func (n *Net) AllFinished() bool {
	for _, nd := range n.Nodes {
		if !nd.Finished() {
			return false
		}
	}
	return true
}

// ------------------------------------------------------------------------------------------------
// Schedulers

type Scheduler interface {
	// Next performs one action on the net; it returns false when nothing is left to do.
	Next(n *Net) bool
}

// FIFO: start everybody in index order first, then deliver in emission order.
type FIFO struct{}

func (FIFO) Next(n *Net) bool {
	if u := n.Unstarted(); len(u) > 0 {
		n.Start(u[0])
		return true
	}
	if len(n.Pending) > 0 {
		n.Deliver(0)
		return true
	}
	return false
}

// LIFO: start everybody, then always deliver the most recently emitted item (messages arrive early).
type LIFO struct{}

func (LIFO) Next(n *Net) bool {
	if u := n.Unstarted(); len(u) > 0 {
		n.Start(u[0])
		return true
	}
	if len(n.Pending) > 0 {
		n.Deliver(len(n.Pending) - 1)
		return true
	}
	return false
}

// Starve: deliver to party P only when nothing else can be delivered.
type Starve struct{ P int }

func (s Starve) Next(n *Net) bool {
	if u := n.Unstarted(); len(u) > 0 {
		n.Start(u[0])
		return true
	}
	for k, d := range n.Pending {
		if d.To != s.P {
			n.Deliver(k)
			return true
		}
	}
	if len(n.Pending) > 0 {
		n.Deliver(0)
		return true
	}
	return false
}

// PreStart: deliver to party P before its Start as long as anything addressed to it exists
// (others are started first and served FIFO); then start P and continue FIFO.
type PreStart struct{ P int }

func (s PreStart) Next(n *Net) bool {
	for _, u := range n.Unstarted() {
		if u != s.P {
			n.Start(u)
			return true
		}
	}
	if !n.Nodes[s.P].Started {
		if len(n.Pending) > 0 {
			n.Deliver(0)
			return true
		}
		n.Start(s.P)
		return true
	}
	if len(n.Pending) > 0 {
		n.Deliver(0)
		return true
	}
	return false
}

// DupAll: FIFO, but every delivery is immediately repeated, and all are repeated once more at the end.
type DupAll struct {
	redone int
	flip   bool
}

func (s *DupAll) Next(n *Net) bool {
	if u := n.Unstarted(); len(u) > 0 {
		n.Start(u[0])
		return true
	}
	if s.flip && len(n.Done) > 0 {
		s.flip = false
		n.Redeliver(len(n.Done) - 1)
		return true
	}
	if len(n.Pending) > 0 {
		n.Deliver(0)
		s.flip = true
		return true
	}
	if s.redone < len(n.Done) {
		n.Redeliver(s.redone)
		s.redone++
		return true
	}
	return false
}

// DupLate: FIFO, and after every delivery the delivery made Lag deliveries earlier is handed over once more
// (a duplicate that arrives one or several rounds late, while the protocol is still running); at the end every
// delivery is repeated once more.
type DupLate struct {
	Lag    int
	flip   bool
	redone int
}

func (s *DupLate) Next(n *Net) bool {
	if u := n.Unstarted(); len(u) > 0 {
		n.Start(u[0])
		return true
	}
	if s.flip {
		s.flip = false
		if k := len(n.Done) - 1 - s.Lag; k >= 0 {
			n.Redeliver(k)
			return true
		}
	}
	if len(n.Pending) > 0 {
		n.Deliver(0)
		s.flip = true
		return true
	}
	if s.redone < len(n.Done) {
		n.Redeliver(s.redone)
		s.redone++
		return true
	}
	return false
}

// Choices: every decision is taken from a pre-drawn list (rapid draws it; replay re-uses it).
// Decision space at each step: [start u for u unstarted] ++ [deliver k for k pending] ++ (optionally) [redeliver].
// When the list is exhausted the run continues FIFO.
type Choices struct {
	List    []int
	DupPct  int // 0..100: how often a choice value is interpreted as "redeliver something"
	pos     int
	Applied int
}

func (c *Choices) Next(n *Net) bool {
	un := n.Unstarted()
	total := len(un) + len(n.Pending)
	if total == 0 {
		return false
	}
	if c.pos >= len(c.List) {
		return FIFO{}.Next(n)
	}
	v := c.List[c.pos]
	c.pos++
	c.Applied++
	if c.DupPct > 0 && len(n.Done) > 0 && v%100 < c.DupPct {
		n.Redeliver((v / 100) % len(n.Done))
		return true
	}
	k := (v / 100) % total
	if k < len(un) {
		n.Start(un[k])
	} else {
		n.Deliver(k - len(un))
	}
	return true
}

// HoldSome: FIFO, except that the deliveries whose creation numbers are listed are held back until
// nothing else can be delivered (one message arbitrarily late, overtaken by whole rounds of later traffic).
type HoldSome struct {
	Match func(d *Delivery) bool // alternative to IDs
	IDs   []int
	Held  int // how many listed deliveries were actually overtaken by something
	seen  map[int]bool
}

func (h *HoldSome) held(d *Delivery) bool {
	if h.Match != nil && h.Match(d) {
		return true
	}
	for _, id := range h.IDs {
		if d.ID == id {
			return true
		}
	}
	return false
}

func (h *HoldSome) Next(n *Net) bool {
	if u := n.Unstarted(); len(u) > 0 {
		n.Start(u[0])
		return true
	}
	for k, d := range n.Pending {
		if !h.held(d) {
			for _, e := range n.Pending[:k] {
				if h.held(e) && !h.seen[e.ID] {
					if h.seen == nil {
						h.seen = map[int]bool{}
					}
					h.seen[e.ID] = true
					h.Held++
				}
			}
			n.Deliver(k)
			return true
		}
	}
	if len(n.Pending) > 0 {
		n.Deliver(0)
		return true
	}
	return false
}

// Run drives the net with a scheduler until it has nothing left to do (or maxSteps is reached).
func (n *Net) Run(s Scheduler, maxSteps int) {
	for i := 0; i < maxSteps; i++ {
		if !s.Next(n) {
			return
		}
	}
}

// Keys helper
func KeyInts(ids tss.SortedPartyIDs) []*big.Int { return ids.Keys() }

// Channels exposes a node's channels to a concurrent driver (C09).
func Channels(nd *Node) (out <-chan tss.Message, ecKey <-chan *eckeygen.LocalPartySaveData, edKey <-chan *edkeygen.LocalPartySaveData, sig <-chan *common.SignatureData) {
	return nd.out, nd.endECKey, nd.endEDKey, nd.endSig
}

// ResolveDests maps a message's routing to node indices (self excluded), as the simulator does.
func ResolveDests(n *Net, from int, m tss.Message) []int {
	var out []int
	if m.GetTo() == nil {
		for _, o := range n.Nodes {
			if o.Idx != from {
				out = append(out, o.Idx)
			}
		}
		return out
	}
	for _, id := range m.GetTo() {
		if j := n.nodeByID(id); j >= 0 && j != from {
			out = append(out, j)
		}
	}
	return out
}

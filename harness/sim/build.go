package sim

import (
	"fmt"
	"io"
	"math/big"
	"time"

	"github.com/bnb-chain/tss-lib/v2/common"
	eckeygen "github.com/bnb-chain/tss-lib/v2/ecdsa/keygen"
	ecresharing "github.com/bnb-chain/tss-lib/v2/ecdsa/resharing"
	ecsigning "github.com/bnb-chain/tss-lib/v2/ecdsa/signing"
	edkeygen "github.com/bnb-chain/tss-lib/v2/eddsa/keygen"
	edresharing "github.com/bnb-chain/tss-lib/v2/eddsa/resharing"
	edsigning "github.com/bnb-chain/tss-lib/v2/eddsa/signing"
	"github.com/bnb-chain/tss-lib/v2/tss"
)

const outCap = 8192

func newNode(idx int, id *tss.PartyID, role string) *Node {
	return &Node{Idx: idx, ID: id, Role: role, out: make(chan tss.Message, outCap)}
}

// IDStyle chooses the free-form id / moniker strings of the party ids built by MakeIDs: "" (unique),
// "blank" (all empty) or "shared" (pairs of parties carry the same string). The library identifies parties
// by key and index only, so this must not matter. Set per case by the harness (cases run one at a time).
var IDStyle string

// MakeIDs builds sorted party ids from keys given in any order (as the README prescribes).
func MakeIDs(prefix string, keys []*big.Int) tss.SortedPartyIDs {
	un := make(tss.UnSortedPartyIDs, len(keys))
	for i, k := range keys {
		name := fmt.Sprintf("%s%d", prefix, i)
		switch IDStyle {
		case "blank":
			name = ""
		case "shared":
			name = fmt.Sprintf("%s%d", prefix, i/2)
		}
		un[i] = tss.NewPartyID(name, name, k)
	}
	return tss.SortPartyIDs(un)
}

type KeygenCfg struct {
	EdDSA       bool
	Keys        []*big.Int // party keys, any order
	T           int
	Pre         []eckeygen.LocalPreParams // ECDSA: pre-parameters for the party at sorted index i
	NoProofMod  bool
	NoProofFac  bool
	PartialRand func(i int) io.Reader
	Rand        func(i int) io.Reader
}

func NewKeygen(c KeygenCfg) (*Net, tss.SortedPartyIDs) {
	ids := MakeIDs("k", c.Keys)
	ctx := tss.NewPeerContext(ids)
	n := &Net{}
	for i, id := range ids {
		nd := newNode(i, id, "")
		curve := tss.S256()
		if c.EdDSA {
			curve = tss.Edwards()
		}
		params := tss.NewParameters(curve, ctx, id, len(ids), c.T)
		params.SetSafePrimeGenTimeout(3 * time.Hour) // only matters when the library generates the pre-parameters itself
		if c.NoProofMod {
			params.SetNoProofMod()
		}
		if c.NoProofFac {
			params.SetNoProofFac()
		}
		if c.PartialRand != nil {
			if r := c.PartialRand(i); r != nil {
				params.SetPartialKeyRand(r)
			}
		}
		if c.Rand != nil {
			if r := c.Rand(i); r != nil {
				params.SetRand(r)
			}
		}
		if c.EdDSA {
			nd.endEDKey = make(chan *edkeygen.LocalPartySaveData, 8)
			nd.P = edkeygen.NewLocalParty(params, nd.out, nd.endEDKey)
		} else {
			nd.endECKey = make(chan *eckeygen.LocalPartySaveData, 8)
			if c.Pre[i].PaillierSK == nil { // no pre-parameters: the library generates them in round 1
				nd.P = eckeygen.NewLocalParty(params, nd.out, nd.endECKey)
			} else {
				nd.P = eckeygen.NewLocalParty(params, nd.out, nd.endECKey, c.Pre[i])
			}
		}
		n.Nodes = append(n.Nodes, nd)
	}
	return n, ids
}

type SignCfg struct {
	EdDSA        bool
	ECKeys       []eckeygen.LocalPartySaveData // signers' key data, any order
	EDKeys       []edkeygen.LocalPartySaveData
	T            int
	Msg          *big.Int
	FullBytesLen int // < 0: argument absent
	KDD          *big.Int
	Rand         func(i int) io.Reader
	// PartialKeyRand, when set, is installed with SetPartialKeyRand (the source meant for key generation's u_i).
	PartialKeyRand func(i int) io.Reader
	// KeyFor, when set, overrides which key data node i (sorted order) is constructed with.
}

// NewSigning builds the signing parties. Returned: the net, the sorted ids, and for each node the
// index into the cfg key slice it was constructed with.
func NewSigning(c SignCfg) (*Net, tss.SortedPartyIDs, []int) {
	var shareIDs []*big.Int
	if c.EdDSA {
		for _, k := range c.EDKeys {
			shareIDs = append(shareIDs, k.ShareID)
		}
	} else {
		for _, k := range c.ECKeys {
			shareIDs = append(shareIDs, k.ShareID)
		}
	}
	ids := MakeIDs("s", shareIDs)
	ctx := tss.NewPeerContext(ids)
	n := &Net{}
	keyIdx := make([]int, len(ids))
	for i, id := range ids {
		ki := -1
		for j, s := range shareIDs {
			if s.Cmp(id.KeyInt()) == 0 {
				ki = j
			}
		}
		keyIdx[i] = ki
		nd := newNode(i, id, "")
		nd.endSig = make(chan *common.SignatureData, 8)
		if c.EdDSA {
			params := tss.NewParameters(tss.Edwards(), ctx, id, len(ids), c.T)
			if c.Rand != nil {
				if r := c.Rand(i); r != nil {
					params.SetRand(r)
				}
			}
			if c.PartialKeyRand != nil {
				params.SetPartialKeyRand(c.PartialKeyRand(i))
			}
			if c.FullBytesLen >= 0 {
				nd.P = edsigning.NewLocalParty(c.Msg, params, c.EDKeys[ki], nd.out, nd.endSig, c.FullBytesLen)
			} else {
				nd.P = edsigning.NewLocalParty(c.Msg, params, c.EDKeys[ki], nd.out, nd.endSig)
			}
		} else {
			params := tss.NewParameters(tss.S256(), ctx, id, len(ids), c.T)
			if c.Rand != nil {
				if r := c.Rand(i); r != nil {
					params.SetRand(r)
				}
			}
			if c.PartialKeyRand != nil {
				params.SetPartialKeyRand(c.PartialKeyRand(i))
			}
			switch {
			case c.KDD != nil && c.FullBytesLen >= 0:
				nd.P = ecsigning.NewLocalPartyWithKDD(c.Msg, params, c.ECKeys[ki], c.KDD, nd.out, nd.endSig, c.FullBytesLen)
			case c.KDD != nil:
				nd.P = ecsigning.NewLocalPartyWithKDD(c.Msg, params, c.ECKeys[ki], c.KDD, nd.out, nd.endSig)
			case c.FullBytesLen >= 0:
				nd.P = ecsigning.NewLocalParty(c.Msg, params, c.ECKeys[ki], nd.out, nd.endSig, c.FullBytesLen)
			default:
				nd.P = ecsigning.NewLocalParty(c.Msg, params, c.ECKeys[ki], nd.out, nd.endSig)
			}
		}
		n.Nodes = append(n.Nodes, nd)
	}
	return n, ids, keyIdx
}

type ReshareCfg struct {
	EdDSA      bool
	OldEC      []eckeygen.LocalPartySaveData // participating old members' key data, any order
	OldED      []edkeygen.LocalPartySaveData
	OldT       int
	NewKeys    []*big.Int // new committee party keys, any order
	NewT       int
	NewPre     []eckeygen.LocalPreParams // ECDSA: for the new member at sorted index j
	NoProofMod bool
	NoProofFac bool
	Rand       func(i int) io.Reader
	// OldEndUnbuffered: the old members' result channels have no buffer, so a retiring member's final call blocks
	// on its report until the harness reads the channel (an application that collects results late)
	OldEndUnbuffered bool
}

func oldEndCap(c ReshareCfg) int {
	if c.OldEndUnbuffered {
		return 0
	}
	return 8
}

// NewResharing builds old members (nodes 0..len(old)-1, sorted) followed by new members (sorted).
// oldKeyIdx[i] is the index into cfg.OldEC/OldED that old node i was built with.
func NewResharing(c ReshareCfg) (n *Net, oldIDs, newIDs tss.SortedPartyIDs, oldKeyIdx []int) {
	var shareIDs []*big.Int
	if c.EdDSA {
		for _, k := range c.OldED {
			shareIDs = append(shareIDs, k.ShareID)
		}
	} else {
		for _, k := range c.OldEC {
			shareIDs = append(shareIDs, k.ShareID)
		}
	}
	oldIDs = MakeIDs("o", shareIDs)
	newIDs = MakeIDs("n", c.NewKeys)
	oldCtx, newCtx := tss.NewPeerContext(oldIDs), tss.NewPeerContext(newIDs)
	curve := tss.S256()
	if c.EdDSA {
		curve = tss.Edwards()
	}
	n = &Net{}
	mk := func(id *tss.PartyID) *tss.ReSharingParameters {
		p := tss.NewReSharingParameters(curve, oldCtx, newCtx, id, len(oldIDs), c.OldT, len(newIDs), c.NewT)
		p.SetSafePrimeGenTimeout(3 * time.Hour) // only matters when the library generates the pre-parameters itself
		if c.NoProofMod {
			p.SetNoProofMod()
		}
		if c.NoProofFac {
			p.SetNoProofFac()
		}
		return p
	}
	oldKeyIdx = make([]int, len(oldIDs))
	for i, id := range oldIDs {
		ki := -1
		for j, s := range shareIDs {
			if s.Cmp(id.KeyInt()) == 0 {
				ki = j
			}
		}
		oldKeyIdx[i] = ki
		nd := newNode(len(n.Nodes), id, "old")
		params := mk(id)
		if c.Rand != nil {
			if r := c.Rand(nd.Idx); r != nil {
				params.SetRand(r)
			}
		}
		if c.EdDSA {
			nd.endEDKey = make(chan *edkeygen.LocalPartySaveData, oldEndCap(c))
			nd.P = edresharing.NewLocalParty(params, c.OldED[ki], nd.out, nd.endEDKey)
		} else {
			nd.endECKey = make(chan *eckeygen.LocalPartySaveData, oldEndCap(c))
			nd.P = ecresharing.NewLocalParty(params, c.OldEC[ki], nd.out, nd.endECKey)
		}
		n.Nodes = append(n.Nodes, nd)
	}
	for j, id := range newIDs {
		nd := newNode(len(n.Nodes), id, "new")
		params := mk(id)
		if c.Rand != nil {
			if r := c.Rand(nd.Idx); r != nil {
				params.SetRand(r)
			}
		}
		if c.EdDSA {
			nd.endEDKey = make(chan *edkeygen.LocalPartySaveData, 8)
			save := edkeygen.NewLocalPartySaveData(len(newIDs))
			nd.P = edresharing.NewLocalParty(params, save, nd.out, nd.endEDKey)
		} else {
			nd.endECKey = make(chan *eckeygen.LocalPartySaveData, 8)
			save := eckeygen.NewLocalPartySaveData(len(newIDs))
			save.LocalPreParams = c.NewPre[j]
			nd.P = ecresharing.NewLocalParty(params, save, nd.out, nd.endECKey)
		}
		n.Nodes = append(n.Nodes, nd)
	}
	return
}

// Package ref holds independent reference implementations used as oracles.
// Everything here is written against math/big only and shares no code with
// tss-lib or with the curve back-ends tss-lib uses.
package ref

import (
	"errors"
	"math/big"
)

// Point is an affine point; Inf marks the neutral element of a Weierstrass curve.
type Point struct {
	X, Y *big.Int
	Inf  bool
}

func bi(s string) *big.Int {
	v, ok := new(big.Int).SetString(s, 16)
	if !ok {
		panic("bad constant " + s)
	}
	return v
}

// ------------------------------------------------------------------------- secp256k1

type Weierstrass struct {
	P, N, B *big.Int
	G       Point
}

var Secp = &Weierstrass{
	P: bi("FFFFFFFFFFFFFFFFFFFFFFFFFFFFFFFFFFFFFFFFFFFFFFFFFFFFFFFEFFFFFC2F"),
	N: bi("FFFFFFFFFFFFFFFFFFFFFFFFFFFFFFFEBAAEDCE6AF48A03BBFD25E8CD0364141"),
	B: big.NewInt(7),
	G: Point{
		X: bi("79BE667EF9DCBBAC55A06295CE870B07029BFCDB2DCE28D959F2815B16F81798"),
		Y: bi("483ADA7726A3C4655DA4FBFC0E1108A8FD17B448A68554199C47D08FFB10D4B8"),
	},
}

func (c *Weierstrass) OnCurve(x, y *big.Int) bool {
	if x == nil || y == nil || x.Sign() < 0 || y.Sign() < 0 || x.Cmp(c.P) >= 0 || y.Cmp(c.P) >= 0 {
		return false
	}
	l := new(big.Int).Mul(y, y)
	l.Mod(l, c.P)
	r := new(big.Int).Mul(x, x)
	r.Mul(r, x)
	r.Add(r, c.B)
	r.Mod(r, c.P)
	return l.Cmp(r) == 0
}

func (c *Weierstrass) Add(a, b Point) Point {
	if a.Inf {
		return b
	}
	if b.Inf {
		return a
	}
	p := c.P
	if a.X.Cmp(b.X) == 0 {
		s := new(big.Int).Add(a.Y, b.Y)
		s.Mod(s, p)
		if s.Sign() == 0 {
			return Point{Inf: true}
		}
		// doubling
		num := new(big.Int).Mul(a.X, a.X)
		num.Mul(num, big.NewInt(3))
		den := new(big.Int).Lsh(a.Y, 1)
		den.ModInverse(den, p)
		l := num.Mul(num, den)
		l.Mod(l, p)
		return c.finish(l, a, a)
	}
	num := new(big.Int).Sub(b.Y, a.Y)
	den := new(big.Int).Sub(b.X, a.X)
	den.Mod(den, p)
	den.ModInverse(den, p)
	l := num.Mul(num, den)
	l.Mod(l, p)
	return c.finish(l, a, b)
}

func (c *Weierstrass) finish(l *big.Int, a, b Point) Point {
	p := c.P
	x := new(big.Int).Mul(l, l)
	x.Sub(x, a.X)
	x.Sub(x, b.X)
	x.Mod(x, p)
	y := new(big.Int).Sub(a.X, x)
	y.Mul(y, l)
	y.Sub(y, a.Y)
	y.Mod(y, p)
	return Point{X: x, Y: y}
}

func (c *Weierstrass) Neg(a Point) Point {
	if a.Inf {
		return a
	}
	y := new(big.Int).Sub(c.P, a.Y)
	y.Mod(y, c.P)
	return Point{X: new(big.Int).Set(a.X), Y: y}
}

// Mul computes k*a for any non-negative k (not reduced first, so k >= N is exercised honestly).
func (c *Weierstrass) Mul(k *big.Int, a Point) Point {
	r := Point{Inf: true}
	for i := k.BitLen() - 1; i >= 0; i-- {
		r = c.Add(r, r)
		if k.Bit(i) == 1 {
			r = c.Add(r, a)
		}
	}
	return r
}

func (c *Weierstrass) BaseMul(k *big.Int) Point { return c.Mul(k, c.G) }

// Decompress returns the point with the given x and y parity, if x is on the curve.
func (c *Weierstrass) Decompress(x *big.Int, odd bool) (Point, bool) {
	if x.Sign() < 0 || x.Cmp(c.P) >= 0 {
		return Point{}, false
	}
	r := new(big.Int).Mul(x, x)
	r.Mul(r, x)
	r.Add(r, c.B)
	r.Mod(r, c.P)
	y := new(big.Int).ModSqrt(r, c.P)
	if y == nil {
		return Point{}, false
	}
	if (y.Bit(0) == 1) != odd {
		y.Sub(c.P, y)
	}
	return Point{X: new(big.Int).Set(x), Y: y}, true
}

// ECDSAVerify is the textbook verification with z = integer value of the digest (already < N or reduced).
func (c *Weierstrass) ECDSAVerify(pub Point, z, r, s *big.Int) bool {
	if pub.Inf || !c.OnCurve(pub.X, pub.Y) {
		return false
	}
	if r.Sign() <= 0 || s.Sign() <= 0 || r.Cmp(c.N) >= 0 || s.Cmp(c.N) >= 0 {
		return false
	}
	w := new(big.Int).ModInverse(s, c.N)
	u1 := new(big.Int).Mul(z, w)
	u1.Mod(u1, c.N)
	u2 := new(big.Int).Mul(r, w)
	u2.Mod(u2, c.N)
	pt := c.Add(c.BaseMul(u1), c.Mul(u2, pub))
	if pt.Inf {
		return false
	}
	x := new(big.Int).Mod(pt.X, c.N)
	return x.Cmp(r) == 0
}

// ECDSARecover recovers the public key from (recid, r, s, z): recid bit0 = parity of R.y, bit1 = R.x >= N.
func (c *Weierstrass) ECDSARecover(recid int, z, r, s *big.Int) (Point, error) {
	x := new(big.Int).Set(r)
	if recid&2 != 0 {
		x.Add(x, c.N)
	}
	R, ok := c.Decompress(x, recid&1 == 1)
	if !ok {
		return Point{}, errors.New("r is not the x coordinate of a curve point")
	}
	rinv := new(big.Int).ModInverse(r, c.N)
	if rinv == nil {
		return Point{}, errors.New("r not invertible")
	}
	// Q = r^-1 (s R - z G)
	sR := c.Mul(s, R)
	zG := c.BaseMul(new(big.Int).Mod(z, c.N))
	d := c.Add(sR, c.Neg(zG))
	q := c.Mul(rinv, d)
	if q.Inf {
		return Point{}, errors.New("recovered infinity")
	}
	return q, nil
}

// ------------------------------------------------------------------------- edwards25519

type Edwards struct {
	P, L, D *big.Int
	G       Point
}

var Ed = func() *Edwards {
	p := new(big.Int).Sub(new(big.Int).Lsh(big.NewInt(1), 255), big.NewInt(19))
	l := new(big.Int).Add(new(big.Int).Lsh(big.NewInt(1), 252), bi("14DEF9DEA2F79CD65812631A5CF5D3ED"))
	// d = -121665/121666 mod p
	d := new(big.Int).ModInverse(big.NewInt(121666), p)
	d.Mul(d, big.NewInt(-121665))
	d.Mod(d, p)
	e := &Edwards{P: p, L: l, D: d}
	// base point: y = 4/5, x even... (x is the "positive" root, i.e. even)
	y := new(big.Int).ModInverse(big.NewInt(5), p)
	y.Mul(y, big.NewInt(4))
	y.Mod(y, p)
	x, ok := e.RecoverX(y, false)
	if !ok {
		panic("edwards base point")
	}
	e.G = Point{X: x, Y: y}
	return e
}()

// RecoverX solves -x^2 + y^2 = 1 + d x^2 y^2 for x with the requested parity.
func (e *Edwards) RecoverX(y *big.Int, odd bool) (*big.Int, bool) {
	p := e.P
	y2 := new(big.Int).Mul(y, y)
	y2.Mod(y2, p)
	num := new(big.Int).Sub(y2, big.NewInt(1))
	num.Mod(num, p)
	den := new(big.Int).Mul(e.D, y2)
	den.Add(den, big.NewInt(1))
	den.Mod(den, p)
	den.ModInverse(den, p)
	x2 := num.Mul(num, den)
	x2.Mod(x2, p)
	x := new(big.Int).ModSqrt(x2, p)
	if x == nil {
		return nil, false
	}
	if x.Sign() == 0 && odd {
		return nil, false
	}
	if (x.Bit(0) == 1) != odd {
		x.Sub(p, x)
		x.Mod(x, p)
	}
	return x, true
}

func (e *Edwards) OnCurve(x, y *big.Int) bool {
	if x == nil || y == nil || x.Sign() < 0 || y.Sign() < 0 || x.Cmp(e.P) >= 0 || y.Cmp(e.P) >= 0 {
		return false
	}
	p := e.P
	x2 := new(big.Int).Mul(x, x)
	x2.Mod(x2, p)
	y2 := new(big.Int).Mul(y, y)
	y2.Mod(y2, p)
	l := new(big.Int).Sub(y2, x2)
	l.Mod(l, p)
	r := new(big.Int).Mul(x2, y2)
	r.Mul(r, e.D)
	r.Add(r, big.NewInt(1))
	r.Mod(r, p)
	return l.Cmp(r) == 0
}

func (e *Edwards) Identity() Point { return Point{X: big.NewInt(0), Y: big.NewInt(1)} }

// Add is the complete twisted Edwards addition law (a = -1).
func (e *Edwards) Add(a, b Point) Point {
	p := e.P
	x1y2 := new(big.Int).Mul(a.X, b.Y)
	y1x2 := new(big.Int).Mul(a.Y, b.X)
	y1y2 := new(big.Int).Mul(a.Y, b.Y)
	x1x2 := new(big.Int).Mul(a.X, b.X)
	dxy := new(big.Int).Mul(x1x2, y1y2)
	dxy.Mod(dxy, p)
	dxy.Mul(dxy, e.D)
	dxy.Mod(dxy, p)
	xn := new(big.Int).Add(x1y2, y1x2)
	xd := new(big.Int).Add(big.NewInt(1), dxy)
	xd.Mod(xd, p)
	xd.ModInverse(xd, p)
	yn := new(big.Int).Add(y1y2, x1x2)
	yd := new(big.Int).Sub(big.NewInt(1), dxy)
	yd.Mod(yd, p)
	yd.ModInverse(yd, p)
	x := xn.Mul(xn, xd)
	x.Mod(x, p)
	y := yn.Mul(yn, yd)
	y.Mod(y, p)
	return Point{X: x, Y: y}
}

func (e *Edwards) Neg(a Point) Point {
	x := new(big.Int).Sub(e.P, a.X)
	x.Mod(x, e.P)
	return Point{X: x, Y: new(big.Int).Set(a.Y)}
}

func (e *Edwards) Mul(k *big.Int, a Point) Point {
	r := e.Identity()
	for i := k.BitLen() - 1; i >= 0; i-- {
		r = e.Add(r, r)
		if k.Bit(i) == 1 {
			r = e.Add(r, a)
		}
	}
	return r
}

func (e *Edwards) BaseMul(k *big.Int) Point { return e.Mul(k, e.G) }

func (e *Edwards) Equal(a, b Point) bool { return a.X.Cmp(b.X) == 0 && a.Y.Cmp(b.Y) == 0 }

// Encode is the RFC 8032 32-byte point encoding.
func (e *Edwards) Encode(a Point) [32]byte {
	var out [32]byte
	yb := a.Y.Bytes()
	for i := 0; i < len(yb) && i < 32; i++ {
		out[i] = yb[len(yb)-1-i]
	}
	if a.X.Bit(0) == 1 {
		out[31] |= 0x80
	}
	return out
}

// Decode is the RFC 8032 point decoding (rejects non-canonical y).
func (e *Edwards) Decode(b [32]byte) (Point, bool) {
	odd := b[31]&0x80 != 0
	b[31] &= 0x7f
	le := make([]byte, 32)
	for i := 0; i < 32; i++ {
		le[i] = b[31-i]
	}
	y := new(big.Int).SetBytes(le)
	if y.Cmp(e.P) >= 0 {
		return Point{}, false
	}
	x, ok := e.RecoverX(y, odd)
	if !ok {
		return Point{}, false
	}
	return Point{X: x, Y: y}, true
}

// Torsion returns the 8 points of order dividing 8.
func (e *Edwards) Torsion() []Point {
	// find a point of order 8: take any point Q and multiply by L; search small y.
	var t8 Point
	found := false
	for yv := int64(2); yv < 1000 && !found; yv++ {
		y := big.NewInt(yv)
		x, ok := e.RecoverX(y, false)
		if !ok {
			continue
		}
		q := e.Mul(e.L, Point{X: x, Y: y})
		// order of q divides 8; need exactly 8
		q4 := e.Mul(big.NewInt(4), q)
		if !e.Equal(q4, e.Identity()) {
			t8, found = q, true
		}
	}
	if !found {
		panic("no order-8 point found")
	}
	out := make([]Point, 0, 8)
	cur := e.Identity()
	for i := 0; i < 8; i++ {
		out = append(out, cur)
		cur = e.Add(cur, t8)
	}
	return out
}

package ref

import (
	"crypto/hmac"
	"crypto/sha256"
	"crypto/sha512"
	"encoding/binary"
	"errors"
	"math/big"

	"golang.org/x/crypto/ripemd160"
)

// LagrangeAt returns the coefficients l_k(x) (mod q) for the nodes xs, so that
// f(x) = sum_k l_k(x) f(xs[k]) for every polynomial of degree < len(xs).
func LagrangeAt(xs []*big.Int, x, q *big.Int) ([]*big.Int, error) {
	out := make([]*big.Int, len(xs))
	for k := range xs {
		num, den := big.NewInt(1), big.NewInt(1)
		for j := range xs {
			if j == k {
				continue
			}
			a := new(big.Int).Sub(x, xs[j])
			num.Mul(num, a)
			num.Mod(num, q)
			b := new(big.Int).Sub(xs[k], xs[j])
			den.Mul(den, b)
			den.Mod(den, q)
		}
		inv := new(big.Int).ModInverse(den, q)
		if inv == nil {
			return nil, errors.New("nodes not distinct mod q")
		}
		num.Mul(num, inv)
		out[k] = num.Mod(num, q)
	}
	return out, nil
}

// Interpolate evaluates at x the polynomial through (xs[k], ys[k]) over Z_q.
func Interpolate(xs, ys []*big.Int, x, q *big.Int) (*big.Int, error) {
	ls, err := LagrangeAt(xs, x, q)
	if err != nil {
		return nil, err
	}
	s := new(big.Int)
	for k := range ls {
		t := new(big.Int).Mul(ls[k], ys[k])
		s.Add(s, t)
	}
	return s.Mod(s, q), nil
}

// PaillierDecryptCRT decrypts c under N = p*q using only p and q (no lambda, no L on N^2):
// m_p = L_p(c^(p-1) mod p^2) * h_p mod p with h_p = L_p((N+1)^(p-1) mod p^2)^-1, same for q, then CRT.
func PaillierDecryptCRT(c, p, q *big.Int) (*big.Int, error) {
	n := new(big.Int).Mul(p, q)
	g := new(big.Int).Add(n, big.NewInt(1))
	part := func(pr *big.Int) (*big.Int, error) {
		p2 := new(big.Int).Mul(pr, pr)
		e := new(big.Int).Sub(pr, big.NewInt(1))
		lf := func(u *big.Int) *big.Int {
			t := new(big.Int).Sub(u, big.NewInt(1))
			return t.Div(t, pr)
		}
		cu := lf(new(big.Int).Exp(new(big.Int).Mod(c, p2), e, p2))
		gu := lf(new(big.Int).Exp(new(big.Int).Mod(g, p2), e, p2))
		h := new(big.Int).ModInverse(gu, pr)
		if h == nil {
			return nil, errors.New("no inverse in CRT decryption")
		}
		cu.Mul(cu, h)
		return cu.Mod(cu, pr), nil
	}
	mp, err := part(p)
	if err != nil {
		return nil, err
	}
	mq, err := part(q)
	if err != nil {
		return nil, err
	}
	// CRT
	pinv := new(big.Int).ModInverse(p, q)
	d := new(big.Int).Sub(mq, mp)
	d.Mul(d, pinv)
	d.Mod(d, q)
	d.Mul(d, p)
	d.Add(d, mp)
	return d.Mod(d, n), nil
}

// ------------------------------------------------------------------------- BIP32 (public derivation)

type XPub struct {
	Version   [4]byte
	Depth     uint8
	ParentFP  [4]byte
	ChildIdx  uint32
	ChainCode [32]byte
	Key       Point
}

func SerCompressed(p Point) []byte {
	out := make([]byte, 33)
	out[0] = 2
	if p.Y.Bit(0) == 1 {
		out[0] = 3
	}
	p.X.FillBytes(out[1:])
	return out
}

func Hash160(b []byte) []byte {
	h := sha256.Sum256(b)
	r := ripemd160.New()
	r.Write(h[:])
	return r.Sum(nil)
}

// CKDPub is BIP32 public parent key -> public child key. It returns I_L as well.
func CKDPub(k XPub, index uint32) (XPub, *big.Int, error) {
	if index >= 0x80000000 {
		return XPub{}, nil, errors.New("hardened")
	}
	if k.Depth == 255 {
		return XPub{}, nil, errors.New("depth")
	}
	if !Secp.OnCurve(k.Key.X, k.Key.Y) {
		return XPub{}, nil, errors.New("parent key not on curve")
	}
	data := append(SerCompressed(k.Key), 0, 0, 0, 0)
	binary.BigEndian.PutUint32(data[33:], index)
	m := hmac.New(sha512.New, k.ChainCode[:])
	m.Write(data)
	I := m.Sum(nil)
	il := new(big.Int).SetBytes(I[:32])
	if il.Cmp(Secp.N) >= 0 {
		return XPub{}, nil, errors.New("IL >= n")
	}
	child := Secp.Add(Secp.BaseMul(il), k.Key)
	if child.Inf {
		return XPub{}, nil, errors.New("child at infinity")
	}
	out := XPub{Version: k.Version, Depth: k.Depth + 1, ChildIdx: index, Key: child}
	copy(out.ChainCode[:], I[32:])
	copy(out.ParentFP[:], Hash160(SerCompressed(k.Key))[:4])
	return out, il, nil
}

const b58 = "123456789ABCDEFGHJKLMNPQRSTUVWXYZabcdefghijkmnopqrstuvwxyz"

func Base58(b []byte) string {
	x := new(big.Int).SetBytes(b)
	var out []byte
	r := new(big.Int)
	fifty8 := big.NewInt(58)
	for x.Sign() > 0 {
		x.DivMod(x, fifty8, r)
		out = append(out, b58[r.Int64()])
	}
	for _, c := range b {
		if c != 0 {
			break
		}
		out = append(out, b58[0])
	}
	for i, j := 0, len(out)-1; i < j; i, j = i+1, j-1 {
		out[i], out[j] = out[j], out[i]
	}
	return string(out)
}

func (k XPub) String() string {
	b := make([]byte, 0, 82)
	b = append(b, k.Version[:]...)
	b = append(b, k.Depth)
	b = append(b, k.ParentFP[:]...)
	var ci [4]byte
	binary.BigEndian.PutUint32(ci[:], k.ChildIdx)
	b = append(b, ci[:]...)
	b = append(b, k.ChainCode[:]...)
	b = append(b, SerCompressed(k.Key)...)
	h1 := sha256.Sum256(b)
	h2 := sha256.Sum256(h1[:])
	b = append(b, h2[:4]...)
	return Base58(b)
}

// ------------------------------------------------------------------------- Ed25519 (RFC 8032) verification

func le32(b []byte) *big.Int {
	r := make([]byte, len(b))
	for i := range b {
		r[i] = b[len(b)-1-i]
	}
	return new(big.Int).SetBytes(r)
}

// Ed25519Verify is a textbook RFC 8032 verification (cofactorless equation, canonical S required).
func Ed25519Verify(pub [32]byte, msg []byte, sig []byte) bool {
	if len(sig) != 64 {
		return false
	}
	A, ok := Ed.Decode(pub)
	if !ok {
		return false
	}
	var rb [32]byte
	copy(rb[:], sig[:32])
	R, ok := Ed.Decode(rb)
	if !ok {
		return false
	}
	S := le32(sig[32:])
	if S.Cmp(Ed.L) >= 0 {
		return false
	}
	h := sha512.New()
	h.Write(sig[:32])
	h.Write(pub[:])
	h.Write(msg)
	k := le32(h.Sum(nil))
	k.Mod(k, Ed.L)
	lhs := Ed.BaseMul(S)
	rhs := Ed.Add(R, Ed.Mul(k, A))
	return Ed.Equal(lhs, rhs)
}

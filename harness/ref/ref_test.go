package ref

import (
	"crypto/ed25519"
	"encoding/hex"
	"math/big"
	"testing"
)

func TestSelf(t *testing.T) {
	if err := SelfTest(); err != nil {
		t.Fatal(err)
	}
}

func TestEdAgainstStdlib(t *testing.T) {
	seed := make([]byte, 32)
	for i := range seed {
		seed[i] = byte(i * 7)
	}
	sk := ed25519.NewKeyFromSeed(seed)
	pk := sk.Public().(ed25519.PublicKey)
	msg := []byte("hello")
	sig := ed25519.Sign(sk, msg)
	var p [32]byte
	copy(p[:], pk)
	if !Ed25519Verify(p, msg, sig) {
		t.Fatal("ref ed25519 verify rejects a stdlib signature")
	}
	sig[40] ^= 1
	if Ed25519Verify(p, msg, sig) {
		t.Fatal("ref ed25519 verify accepts a bad signature")
	}
	_ = hex.EncodeToString
	_ = big.NewInt
}

package ref

import (
	"encoding/hex"
	"fmt"
	"math/big"
)

// SelfTest validates the reference implementations against published vectors. A failure here is
// a harness error (exit 2), never a property violation.
func SelfTest() error {
	// secp256k1: 2G known answer
	two := Secp.BaseMul(big.NewInt(2))
	if two.X.Cmp(bi("C6047F9441ED7D6D3045406E95C07CD85C778E4B8CEF3CA7ABAC09B95C709EE5")) != 0 ||
		two.Y.Cmp(bi("1AE168FEA63DC339A3C58419466CEAEEF7F632653266D0E1236431A950CFE52A")) != 0 {
		return fmt.Errorf("secp256k1 2G mismatch")
	}
	if !Secp.BaseMul(Secp.N).Inf {
		return fmt.Errorf("secp256k1 N*G != infinity")
	}
	if !Secp.OnCurve(Secp.G.X, Secp.G.Y) {
		return fmt.Errorf("secp256k1 G not on curve")
	}
	// ECDSA sign/verify/recover round trip with a fixed key
	d := bi("1E99423A4ED27608A15A2616A2B0E9E52CED330AC530EDCC32C8FFC6A526AEDD")
	Q := Secp.BaseMul(d)
	k := bi("0123456789ABCDEF0123456789ABCDEF0123456789ABCDEF0123456789ABCDEF")
	z := bi("4B688DF40BCEDBE641DDB16FF0A1842D9C67EA1C3BF63F3E0471BAA664531D1A")
	R := Secp.BaseMul(k)
	r := new(big.Int).Mod(R.X, Secp.N)
	s := new(big.Int).Mul(r, d)
	s.Add(s, z)
	s.Mul(s, new(big.Int).ModInverse(k, Secp.N))
	s.Mod(s, Secp.N)
	if !Secp.ECDSAVerify(Q, z, r, s) {
		return fmt.Errorf("ref ECDSA verify rejects a textbook signature")
	}
	if Secp.ECDSAVerify(Q, new(big.Int).Add(z, big.NewInt(1)), r, s) {
		return fmt.Errorf("ref ECDSA verify accepts a wrong digest")
	}
	rec, err := Secp.ECDSARecover(int(R.Y.Bit(0)), z, r, s)
	if err != nil || rec.X.Cmp(Q.X) != 0 || rec.Y.Cmp(Q.Y) != 0 {
		return fmt.Errorf("ref ECDSA recovery mismatch")
	}
	// edwards25519: generator order, RFC 8032 test vector 1
	if !Ed.OnCurve(Ed.G.X, Ed.G.Y) {
		return fmt.Errorf("ed25519 G not on curve")
	}
	if Ed.G.X.Cmp(bi("216936D3CD6E53FEC0A4E231FDD6DC5C692CC7609525A7B2C9562D608F25D51A")) != 0 {
		return fmt.Errorf("ed25519 G.x mismatch")
	}
	if !Ed.Equal(Ed.BaseMul(Ed.L), Ed.Identity()) {
		return fmt.Errorf("ed25519 L*G != identity")
	}
	pub, _ := hex.DecodeString("d75a980182b10ab7d54bfed3c964073a0ee172f3daa62325af021a68f707511a")
	sig, _ := hex.DecodeString("e5564300c360ac729086e2cc806e828a84877f1eb8e5d974d873e065224901555fb8821590a33bacc61e39701cf9b46bd25bf5f0595bbe24655141438e7a100b")
	var p [32]byte
	copy(p[:], pub)
	if !Ed25519Verify(p, nil, sig) {
		return fmt.Errorf("RFC 8032 test vector 1 rejected")
	}
	tor := Ed.Torsion()
	seen := map[string]bool{}
	for _, tp := range tor {
		if !Ed.OnCurve(tp.X, tp.Y) || !Ed.Equal(Ed.Mul(big.NewInt(8), tp), Ed.Identity()) {
			return fmt.Errorf("bad torsion point")
		}
		seen[tp.X.String()+","+tp.Y.String()] = true
	}
	if len(seen) != 8 {
		return fmt.Errorf("expected 8 distinct torsion points, got %d", len(seen))
	}
	// BIP32 test vector 2 (public derivation m -> m/0)
	// m:   xpub661MyMwAqRbcFW31YEwpkMuc5THy2PSt5bDMsktWQcFF8syAmRUapSCGu8ED9W6oDMSgv6Zz8idoc4a6mr8BDzTJY47LJhkJ8UB7WEGuduB
	// m/0: xpub69H7F5d8KSRgmmdJg2KhpAK8SR3DjMwAdkxj3ZuxV27CprR9LgpeyGmXUbC6wb7ERfvrnKZjXoUmmDznezpbZb7ap6r1D3tgFxHmwMkQTPH
	cc, _ := hex.DecodeString("60499f801b896d83179a4374aeb7822aaeaceaa0db1f85ee3e904c4defbd9689")
	kx, _ := hex.DecodeString("03cbcaa9c98c877a26977d00825c956a238e8dddfbd322cce4f74b0b5bd6ace4a7")
	pt, ok := Secp.Decompress(new(big.Int).SetBytes(kx[1:]), kx[0] == 3)
	if !ok {
		return fmt.Errorf("bip32 vector key does not decompress")
	}
	m := XPub{Version: [4]byte{0x04, 0x88, 0xB2, 0x1E}, Key: pt}
	copy(m.ChainCode[:], cc)
	if m.String() != "xpub661MyMwAqRbcFW31YEwpkMuc5THy2PSt5bDMsktWQcFF8syAmRUapSCGu8ED9W6oDMSgv6Zz8idoc4a6mr8BDzTJY47LJhkJ8UB7WEGuduB" {
		return fmt.Errorf("bip32 master serialisation mismatch: %s", m.String())
	}
	c0, _, err := CKDPub(m, 0)
	if err != nil {
		return err
	}
	if c0.String() != "xpub69H7F5d8KSRgmmdJg2KhpAK8SR3DjMwAdkxj3ZuxV27CprR9LgpeyGmXUbC6wb7ERfvrnKZjXoUmmDznezpbZb7ap6r1D3tgFxHmwMkQTPH" {
		return fmt.Errorf("bip32 m/0 mismatch: %s", c0.String())
	}
	// Paillier CRT decryption on a toy key
	pp, qq := big.NewInt(1019), big.NewInt(1187) // safe primes 2*509+1, 2*593+1
	n := new(big.Int).Mul(pp, qq)
	n2 := new(big.Int).Mul(n, n)
	mm := big.NewInt(123456)
	c := new(big.Int).Exp(new(big.Int).Add(n, big.NewInt(1)), mm, n2)
	c.Mul(c, new(big.Int).Exp(big.NewInt(777), n, n2))
	c.Mod(c, n2)
	got, err := PaillierDecryptCRT(c, pp, qq)
	if err != nil || got.Cmp(mm) != 0 {
		return fmt.Errorf("paillier CRT decrypt mismatch: %v %v", got, err)
	}
	// Lagrange
	q := Secp.N
	xs := []*big.Int{big.NewInt(1), big.NewInt(2), big.NewInt(5)}
	f := func(x *big.Int) *big.Int { // 7 + 3x + 11x^2
		r := new(big.Int).Mul(x, x)
		r.Mul(r, big.NewInt(11))
		r.Add(r, new(big.Int).Mul(x, big.NewInt(3)))
		r.Add(r, big.NewInt(7))
		return r.Mod(r, q)
	}
	ys := []*big.Int{f(xs[0]), f(xs[1]), f(xs[2])}
	v, err := Interpolate(xs, ys, big.NewInt(0), q)
	if err != nil || v.Cmp(big.NewInt(7)) != 0 {
		return fmt.Errorf("lagrange mismatch")
	}
	return nil
}
